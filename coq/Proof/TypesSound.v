(* C19, primitive layer: a constant expression the checker accepts never fails with a type-class error when it is
   evaluated - only division by zero or overflow remain possible - and its value has a kind that fits its static kind. *)
From Coq Require Import QArith ZArith Bool List String Lia.
From Rooc Require Import Model.Exp Model.Types.
Import ListNotations.
Local Close Scope Q_scope.
Local Open Scope Z_scope.

(* operands that can actually exist at run time: Any and Undefined are static-only / never produced by literals *)
Definition runtime_kind (k : kind) : bool := match k with KAny | KUndefined => false | _ => true end.
Definition wf_value (v : value) : bool := match v with VOpaque k => negb (is_numeric k || kind_eqb k KString || kind_eqb k KAny || kind_eqb k KUndefined) | VUndef => false | _ => true end.

Lemma chk_i64_cases z : chk_i64 z = inl (VInt z) \/ chk_i64 z = inr EOverflow.
Proof. unfold chk_i64. destruct (_ && _); auto. Qed.
Lemma chk_u64_cases z : chk_u64 z = inl (VPos z) \/ chk_u64 z = inr EOverflow.
Proof. unfold chk_u64. destruct (_ && _); auto. Qed.
Lemma chk_div_cases a b : chk_div a b = inl (VNum (a / b)%Q) \/ chk_div a b = inr EDivZero.
Proof. unfold chk_div. destruct (Qeq_bool b 0); auto. Qed.

Local Opaque Qplus Qminus Qmult Qdiv Qopp Z.add Z.sub Z.mul Z.opp inject_Z as_i64 Qeq_bool Z.leb chk_i64 chk_u64 chk_div String.append.

Ltac crush_res :=
  repeat match goal with
  | |- context [chk_i64 ?z] => let H := fresh in destruct (chk_i64_cases z) as [H|H]; rewrite H; clear H
  | |- context [chk_u64 ?z] => let H := fresh in destruct (chk_u64_cases z) as [H|H]; rewrite H; clear H
  | |- context [chk_div ?a ?b] => let H := fresh in destruct (chk_div_cases a b) as [H|H]; rewrite H; clear H
  end.

(* the operator tables: whenever the static table accepts the kinds of two run-time values, applying the operator to
   them does not fail with a type-class error, and the result's kind fits the static result kind *)
Lemma apply_bin_sound v op w :
  wf_value v = true -> wf_value w = true ->
  can_bin (kind_of v) op (kind_of w) = true ->
  match apply_bin v op w with
  | inl r => fits (res_bin (kind_of v) op (kind_of w)) (kind_of r) = true /\ wf_value r = true
  | inr e => type_class e = false
  end.
Proof.
  intros Wv Ww C.
  destruct v as [a|a|a|a|a|k|]; try discriminate Wv;
  destruct w as [b|b|b|b|b|k'|]; try discriminate Ww;
  try (destruct k; try discriminate Wv); try (destruct k'; try discriminate Ww);
  destruct op; try discriminate C; cbn; unfold num_bin, int_arith; cbn; crush_res; cbn; try (split; reflexivity); try reflexivity.
Qed.

Lemma apply_un_sound op v :
  wf_value v = true -> can_un (kind_of v) op = true ->
  match apply_un op v with
  | inl r => fits (res_un op (kind_of v)) (kind_of r) = true /\ wf_value r = true
  | inr e => type_class e = false
  end.
Proof.
  intros Wv C. destruct v as [a|a|a|a|a|k|]; try discriminate Wv; try (destruct k; try discriminate Wv);
  destruct op; try discriminate C; cbn; crush_res; cbn; try (split; reflexivity); try reflexivity.
Qed.

(* the static tables only look at a kind through what `fits` preserves: finite sweeps over all kinds and operators *)
Definition all_kinds : list kind := [KNumber; KInteger; KPosInt; KString; KIterable; KGraph; KEdge; KNode; KTuple; KBoolean; KUndefined; KAny].
Definition all_bops : list binop := [Add; Sub; Mul; Div; BAnd; BOr; BXor; BImplies; BIff].
Definition all_uops : list unop := [Neg; UNot].
Lemma in_kinds k : In k all_kinds.  Proof. destruct k; cbn; tauto. Qed.
Lemma in_bops o : In o all_bops.  Proof. destruct o; cbn; tauto. Qed.
Lemma in_uops o : In o all_uops.  Proof. destruct o; cbn; tauto. Qed.

Definition sweep_can_bin : bool :=
  forallb (fun l => forallb (fun l' => forallb (fun r => forallb (fun r' => forallb (fun op =>
    implb (fits l l' && fits r r' && runtime_kind l' && runtime_kind r' && can_bin l op r) (can_bin l' op r'))
    all_bops) all_kinds) all_kinds) all_kinds) all_kinds.
Lemma sweep_can_bin_ok : sweep_can_bin = true.  Proof. vm_compute. reflexivity. Qed.
Definition sweep_res_bin : bool :=
  forallb (fun l => forallb (fun l' => forallb (fun r => forallb (fun r' => forallb (fun op => forallb (fun x =>
    implb (fits l l' && fits r r' && runtime_kind l' && runtime_kind r' && can_bin l op r && fits (res_bin l' op r') x) (fits (res_bin l op r) x))
    all_kinds) all_bops) all_kinds) all_kinds) all_kinds) all_kinds.
Lemma sweep_res_bin_ok : sweep_res_bin = true.  Proof. vm_compute. reflexivity. Qed.
Definition sweep_un : bool :=
  forallb (fun k => forallb (fun k' => forallb (fun op =>
    implb (fits k k' && runtime_kind k' && can_un k op) (can_un k' op) &&
    forallb (fun x => implb (fits k k' && runtime_kind k' && can_un k op && fits (res_un op k') x) (fits (res_un op k) x)) all_kinds)
    all_uops) all_kinds) all_kinds.
Lemma sweep_un_ok : sweep_un = true.  Proof. vm_compute. reflexivity. Qed.

Ltac use_sweep H :=
  repeat match type of H with
  | forallb _ all_kinds = true => rewrite forallb_forall in H
  | forallb _ all_bops = true => rewrite forallb_forall in H
  | forallb _ all_uops = true => rewrite forallb_forall in H
  end.

Lemma can_bin_fits l l' op r r' :
  fits l l' = true -> fits r r' = true -> runtime_kind l' = true -> runtime_kind r' = true ->
  can_bin l op r = true -> can_bin l' op r' = true.
Proof.
  intros A B C D E. pose proof sweep_can_bin_ok as H. unfold sweep_can_bin in H.
  rewrite forallb_forall in H. specialize (H l (in_kinds l)). rewrite forallb_forall in H. specialize (H l' (in_kinds l')).
  rewrite forallb_forall in H. specialize (H r (in_kinds r)). rewrite forallb_forall in H. specialize (H r' (in_kinds r')).
  rewrite forallb_forall in H. specialize (H op (in_bops op)). rewrite A, B, C, D, E in H. exact H.
Qed.
Lemma res_bin_fits l l' op r r' x :
  fits l l' = true -> fits r r' = true -> runtime_kind l' = true -> runtime_kind r' = true ->
  can_bin l op r = true -> fits (res_bin l' op r') x = true -> fits (res_bin l op r) x = true.
Proof.
  intros A B C D E F. pose proof sweep_res_bin_ok as H. unfold sweep_res_bin in H.
  rewrite forallb_forall in H. specialize (H l (in_kinds l)). rewrite forallb_forall in H. specialize (H l' (in_kinds l')).
  rewrite forallb_forall in H. specialize (H r (in_kinds r)). rewrite forallb_forall in H. specialize (H r' (in_kinds r')).
  rewrite forallb_forall in H. specialize (H op (in_bops op)). rewrite forallb_forall in H. specialize (H x (in_kinds x)).
  rewrite A, B, C, D, E, F in H. exact H.
Qed.
Lemma can_un_fits k k' op : fits k k' = true -> runtime_kind k' = true -> can_un k op = true -> can_un k' op = true.
Proof.
  intros A B C. pose proof sweep_un_ok as H. unfold sweep_un in H.
  rewrite forallb_forall in H. specialize (H k (in_kinds k)). rewrite forallb_forall in H. specialize (H k' (in_kinds k')).
  rewrite forallb_forall in H. specialize (H op (in_uops op)). apply andb_prop in H as [H _]. rewrite A, B, C in H. exact H.
Qed.
Lemma res_un_fits k k' op x :
  fits k k' = true -> runtime_kind k' = true -> can_un k op = true -> fits (res_un op k') x = true -> fits (res_un op k) x = true.
Proof.
  intros A B C D. pose proof sweep_un_ok as H. unfold sweep_un in H.
  rewrite forallb_forall in H. specialize (H k (in_kinds k)). rewrite forallb_forall in H. specialize (H k' (in_kinds k')).
  rewrite forallb_forall in H. specialize (H op (in_uops op)). apply andb_prop in H as [_ H].
  rewrite forallb_forall in H. specialize (H x (in_kinds x)). rewrite A, B, C, D in H. exact H.
Qed.
Lemma wf_runtime v : wf_value v = true -> runtime_kind (kind_of v) = true.
Proof. destruct v as [| | | | |k|]; cbn; try reflexivity; try discriminate. destruct k; cbn; intros; try discriminate; reflexivity. Qed.

Section Env.
  Variable tenv : string -> option kind.
  Variable venv : string -> option value.
  (* the environment is consistent: every constant the checker knows has a well-formed value whose kind fits *)
  Hypothesis env_ok : forall n k, tenv n = Some k ->
    exists v, venv n = Some v /\ wf_value v = true /\ fits k (kind_of v) = true.

End Env.

(* literals written in a program are well-formed values *)
Fixpoint wf_cexp (e : cexp) : bool :=
  match e with
  | CLit v => wf_value v
  | CConst _ => true
  | CBin _ a b => wf_cexp a && wf_cexp b
  | CUn _ a => wf_cexp a
  end.

Section Env.
  Variable tenv : string -> option kind.
  Variable venv : string -> option value.
  (* the environment is consistent: every constant the checker knows has a well-formed value whose kind fits *)
  Hypothesis env_ok : forall n k, tenv n = Some k ->
    exists v, venv n = Some v /\ wf_value v = true /\ fits k (kind_of v) = true.

  Lemma fits_refl_runtime v : wf_value v = true -> fits (kind_of v) (kind_of v) = true.
  Proof. intros _. unfold fits. destruct (kind_of v); reflexivity. Qed.

  (* an accepted constant expression evaluates to a well-formed value whose kind fits the static kind, or stops with a
     data-dependent error (division by zero, overflow); never with a type-class error or an undeclared name *)
  Theorem ccheck_sound : forall e,
    wf_cexp e = true -> ccheck tenv e = true ->
    match ceval venv e with
    | ROk v => wf_value v = true /\ fits (ctype tenv e) (kind_of v) = true
    | ROp err => type_class err = false
    | RUndeclared => False
    end.
  Proof.
    induction e as [v|n|op a IHa b IHb|op a IHa]; cbn [wf_cexp ccheck ceval ctype]; intros W C.
    - split; [exact W|apply fits_refl_runtime; exact W].
    - destruct (tenv n) as [k|] eqn:T; [|discriminate]. destruct (env_ok n k T) as [v [V [Wv F]]]. rewrite V. split; assumption.
    - apply andb_prop in W as [Wa Wb]. apply andb_prop in C as [C Cop]. apply andb_prop in C as [Ca Cb].
      specialize (IHa Wa Ca). specialize (IHb Wb Cb).
      destruct (ceval venv a) as [x|ea|]; [|exact IHa|exact IHa].
      destruct (ceval venv b) as [y|eb|]; [|exact IHb|exact IHb].
      destruct IHa as [Wx Fx]. destruct IHb as [Wy Fy].
      pose proof (can_bin_fits _ _ op _ _ Fx Fy (wf_runtime _ Wx) (wf_runtime _ Wy) Cop) as Cdyn.
      pose proof (apply_bin_sound x op y Wx Wy Cdyn) as S.
      destruct (apply_bin x op y) as [r|err]; [|exact S]. destruct S as [Fr Wr]. split; [exact Wr|].
      exact (res_bin_fits _ _ op _ _ _ Fx Fy (wf_runtime _ Wx) (wf_runtime _ Wy) Cop Fr).
    - apply andb_prop in C as [Ca Cop]. specialize (IHa W Ca).
      destruct (ceval venv a) as [x|ea|]; [|exact IHa|exact IHa]. destruct IHa as [Wx Fx].
      pose proof (can_un_fits _ _ op Fx (wf_runtime _ Wx) Cop) as Cdyn.
      pose proof (apply_un_sound op x Wx Cdyn) as S.
      destruct (apply_un op x) as [r|err]; [|exact S]. destruct S as [Fr Wr]. split; [exact Wr|].
      exact (res_un_fits _ _ op _ Fx (wf_runtime _ Wx) Cop Fr).
  Qed.
End Env.
