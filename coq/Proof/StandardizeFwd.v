(* C13, forward direction end to end: every point of the linear model that satisfies its rows and domains has a
   non-negative standard-form point that stands for it (slack/surplus values chosen row by row, a free variable
   split into its positive and negative part), provided the standard form's column names are pairwise distinct. *)
From Coq Require Import QArith Qreals Reals ZArith Bool List Ascii String Lra Lia.
From Rooc Require Import Base.XQ Model.Exp Model.Bounds Model.Linearize Model.Spec Model.Standardize
  Proof.XQFacts Proof.PivotSound Proof.StandardizeSound Proof.StandardizeEquiv Proof.StandardizeBack.
Import ListNotations.
Local Close Scope Q_scope.
Local Open Scope R_scope.
Local Open Scope list_scope.

Definition upd (tau : string -> R) (s : string) (x : R) : string -> R := fun v => if String.eqb v s then x else tau v.
Lemma upd_same tau s x : upd tau s x s = x.
Proof. unfold upd. rewrite String.eqb_refl. reflexivity. Qed.
Lemma upd_other tau s x v : v <> s -> upd tau s x v = tau v.
Proof. unfold upd. intros N. destruct (String.eqb v s) eqn:E; [apply String.eqb_eq in E; contradiction|reflexivity]. Qed.
Lemma upd_agree tau s x vs : ~ In s vs -> forall v, In v vs -> upd tau s x v = tau v.
Proof. intros N v Hv. apply upd_other. intros ->. exact (N Hv). Qed.

(* ---------- slack and surplus values, row by row *)
Lemma normalize_all_forward : forall rows su sl vs acc eqs vs' tot' base tau,
  (base <= List.length vs)%nat -> Forall (row_ok base) rows -> NoDup vs' ->
  normalize_all rows (su, sl, List.length vs) vs acc = inr (eqs, vs', tot') ->
  (forall r, In r rows -> cmp_holds (lr_cmp r) (dot (lr_coeffs r) vs tau) (xval (lr_rhs r))) ->
  (forall v, In v vs -> 0 <= tau v) ->
  exists news tau', eqs = acc ++ news /\ (forall v, In v vs -> tau' v = tau v) /\ (forall v, In v vs' -> 0 <= tau' v) /\
    (forall e, In e news -> dot (eq_coeffs e) vs' tau' = xval (eq_rhs e)).
Proof.
  induction rows as [|r rows IH]; intros su sl vs acc eqs vs' tot' base tau Lb Hok ND H Hrows Hnn; cbn [normalize_all] in H.
  - inversion H; subst. exists [], tau. rewrite app_nil_r. split; [reflexivity|]. split; [reflexivity|]. split; [exact Hnn|]. intros e [].
  - inversion Hok as [|? ? [Lr [Fc Fr]] Hok']; subst.
    pose proof (Hrows r (or_introl eq_refl)) as Hr.
    unfold normalize_row in H. destruct (lr_cmp r) eqn:C; try discriminate H.
    + (* Le: slack = rhs - lhs *)
      set (e := eq_new (resize (lr_coeffs r) (List.length vs) ++ [Fin 1%Q]) (lr_rhs r)) in *.
      set (s := String.append "$sl_" (n_to_string (N.of_nat (S sl)))) in *.
      replace (S (List.length vs)) with (List.length (vs ++ [s])) in H by (rewrite app_length; cbn; lia).
      destruct (normalize_all_vars _ _ _ _ _ _ _ H) as [added E2]. rewrite <- app_assoc in E2. cbn [app] in E2.
      assert (Ns : ~ In s vs). { rewrite E2 in ND. apply NoDup_remove_2 in ND. intros I. apply ND. apply in_or_app. left. exact I. }
      set (tau1 := upd tau s (xval (lr_rhs r) - dot (lr_coeffs r) vs tau)).
      assert (A1 : forall v, In v vs -> tau1 v = tau v) by (apply upd_agree; exact Ns).
      destruct (IH su (S sl) (vs ++ [s]) (acc ++ [e]) eqs vs' tot' (List.length (lr_coeffs r)) tau1) as [news [tau' [E1 [Ag [Nn Eq]]]]];
        [rewrite app_length; lia|exact Hok'|exact ND|exact H| | |].
      { intros r0 Hr0. pose proof (Hrows r0 (or_intror Hr0)) as H0. destruct (proj1 (Forall_forall _ _) Hok' r0 Hr0) as [L0 _].
        rewrite dot_names_app by lia. rewrite (dot_ext _ _ tau1 tau A1). exact H0. }
      { intros v Hv. apply in_app_or in Hv as [Hv|[<-|[]]]; [rewrite A1 by exact Hv; apply Hnn; exact Hv|].
        unfold tau1. rewrite upd_same. cbn [cmp_holds] in Hr. lra. }
      exists (e :: news), tau'. rewrite <- app_assoc in E1. cbn [app] in E1. split; [exact E1|]. split.
      { intros v Hv. rewrite Ag by (apply in_or_app; left; exact Hv). apply A1. exact Hv. } split; [exact Nn|].
      intros e0 [<-|He0]; [|apply Eq; exact He0].
      assert (Ff : Forall finx (resize (lr_coeffs r) (List.length vs) ++ [Fin 1%Q])).
      { apply Forall_app. split; [apply Forall_finx_resize; exact Fc|constructor; [reflexivity|constructor]]. }
      apply (proj2 (proj2 (eq_new_dot _ (lr_rhs r) vs' tau' Ff Fr))).
      rewrite E2. rewrite dot_app by (rewrite resize_length; reflexivity). rewrite dot_resize by lia. cbn [dot xval]. rewrite Q2R_1.
      rewrite (dot_ext _ vs tau' tau) by (intros v Hv; rewrite Ag by (apply in_or_app; left; exact Hv); apply A1; exact Hv).
      rewrite Ag by (apply in_or_app; right; left; reflexivity). unfold tau1. rewrite upd_same. lra.
    + (* Ge: surplus = lhs - rhs *)
      set (e := eq_new (resize (lr_coeffs r) (List.length vs) ++ [Fin (-1)%Q]) (lr_rhs r)) in *.
      set (s := String.append "$su_" (n_to_string (N.of_nat (S su)))) in *.
      replace (S (List.length vs)) with (List.length (vs ++ [s])) in H by (rewrite app_length; cbn; lia).
      destruct (normalize_all_vars _ _ _ _ _ _ _ H) as [added E2]. rewrite <- app_assoc in E2. cbn [app] in E2.
      assert (Ns : ~ In s vs). { rewrite E2 in ND. apply NoDup_remove_2 in ND. intros I. apply ND. apply in_or_app. left. exact I. }
      set (tau1 := upd tau s (dot (lr_coeffs r) vs tau - xval (lr_rhs r))).
      assert (A1 : forall v, In v vs -> tau1 v = tau v) by (apply upd_agree; exact Ns).
      destruct (IH (S su) sl (vs ++ [s]) (acc ++ [e]) eqs vs' tot' (List.length (lr_coeffs r)) tau1) as [news [tau' [E1 [Ag [Nn Eq]]]]];
        [rewrite app_length; lia|exact Hok'|exact ND|exact H| | |].
      { intros r0 Hr0. pose proof (Hrows r0 (or_intror Hr0)) as H0. destruct (proj1 (Forall_forall _ _) Hok' r0 Hr0) as [L0 _].
        rewrite dot_names_app by lia. rewrite (dot_ext _ _ tau1 tau A1). exact H0. }
      { intros v Hv. apply in_app_or in Hv as [Hv|[<-|[]]]; [rewrite A1 by exact Hv; apply Hnn; exact Hv|].
        unfold tau1. rewrite upd_same. cbn [cmp_holds] in Hr. lra. }
      exists (e :: news), tau'. rewrite <- app_assoc in E1. cbn [app] in E1. split; [exact E1|]. split.
      { intros v Hv. rewrite Ag by (apply in_or_app; left; exact Hv). apply A1. exact Hv. } split; [exact Nn|].
      intros e0 [<-|He0]; [|apply Eq; exact He0].
      assert (Ff : Forall finx (resize (lr_coeffs r) (List.length vs) ++ [Fin (-1)%Q])).
      { apply Forall_app. split; [apply Forall_finx_resize; exact Fc|constructor; [reflexivity|constructor]]. }
      apply (proj2 (proj2 (eq_new_dot _ (lr_rhs r) vs' tau' Ff Fr))).
      rewrite E2. rewrite dot_app by (rewrite resize_length; reflexivity). rewrite dot_resize by lia. cbn [dot xval].
      replace (Q2R (-1)) with (-1) by (unfold Q2R; cbn; lra).
      rewrite (dot_ext _ vs tau' tau) by (intros v Hv; rewrite Ag by (apply in_or_app; left; exact Hv); apply A1; exact Hv).
      rewrite Ag by (apply in_or_app; right; left; reflexivity). unfold tau1. rewrite upd_same. lra.
    + (* Eq *)
      set (e := eq_new (lr_coeffs r) (lr_rhs r)) in *.
      destruct (normalize_all_vars _ _ _ _ _ _ _ H) as [added E2].
      destruct (IH su sl vs (acc ++ [e]) eqs vs' tot' (List.length (lr_coeffs r)) tau) as [news [tau' [E1 [Ag [Nn Eq]]]]];
        [exact Lb|exact Hok'|exact ND|exact H| |exact Hnn|].
      { intros r0 Hr0. exact (Hrows r0 (or_intror Hr0)). }
      exists (e :: news), tau'. rewrite <- app_assoc in E1. cbn [app] in E1. split; [exact E1|]. split; [exact Ag|]. split; [exact Nn|].
      intros e0 [<-|He0]; [|apply Eq; exact He0].
      apply (proj2 (proj2 (eq_new_dot _ (lr_rhs r) vs' tau' Fc Fr))).
      rewrite E2, dot_names_app by lia. rewrite (dot_ext _ vs tau' tau Ag). cbn [cmp_holds] in Hr. exact Hr.
Qed.

(* ---------- small list facts *)
Lemma NoDup_app_disjoint {A} (l m : list A) x : NoDup (l ++ m) -> In x l -> In x m -> False.
Proof.
  induction l as [|a l IH]; intros ND Hl Hm; [destruct Hl|]. cbn [app] in ND. inversion ND as [|? ? Na ND']; subst.
  destruct Hl as [<-|Hl]; [apply Na; apply in_or_app; right; exact Hm|exact (IH ND' Hl Hm)].
Qed.
Lemma NoDup_app_l {A} (l m : list A) : NoDup (l ++ m) -> NoDup l.
Proof.
  induction l as [|a l IH]; intros ND; [constructor|]. cbn [app] in ND. inversion ND as [|? ? Na ND']; subst.
  constructor; [intros I; apply Na; apply in_or_app; left; exact I|exact (IH ND')].
Qed.
Lemma in_remove_from_inv {A} (d : A) idx : forall (vs : list A) k x, In x (remove_from k vs idx) ->
  exists i, (i < List.length vs)%nat /\ nth i vs d = x /\ existsb (Nat.eqb (k + i)) idx = false.
Proof.
  induction vs as [|v vs IH]; intros k x H; [destruct H|]. rewrite remove_from_cons in H. apply in_app_or in H as [H|H].
  - destruct (existsb (Nat.eqb k) idx) eqn:E; [destruct H|]. destruct H as [<-|[]]. exists O. cbn [List.length nth]. rewrite Nat.add_0_r.
    split; [lia|]. split; [reflexivity|exact E].
  - destruct (IH (S k) x H) as [i [Li [Ni Ei]]]. exists (S i). cbn [List.length nth]. split; [lia|]. split; [exact Ni|].
    replace (k + S i)%nat with (S k + i)%nat by lia. exact Ei.
Qed.
Lemma in_halves_n P : forall (vs : list string) k i, (i < List.length vs)%nat -> P (k + i)%nat = true ->
  In (pname (nth i vs ""%string)) (halves_n P k vs) /\ In (mname (nth i vs ""%string)) (halves_n P k vs).
Proof.
  induction vs as [|v vs IH]; intros k i Li Pi; [cbn in Li; lia|]. rewrite halves_n_cons. destruct i as [|i].
  - rewrite Nat.add_0_r in Pi. rewrite Pi. cbn [nth app]. split; [left; reflexivity|right; left; reflexivity].
  - cbn [nth]. destruct (IH (S k) i ltac:(cbn in Li; lia) ltac:(replace (S k + i)%nat with (k + S i)%nat by lia; exact Pi)) as [A B].
    split; apply in_or_app; right; assumption.
Qed.
Lemma in_halves_n_inv P : forall (vs : list string) k x, In x (halves_n P k vs) ->
  exists i, (i < List.length vs)%nat /\ P (k + i)%nat = true /\ (x = pname (nth i vs ""%string) \/ x = mname (nth i vs ""%string)).
Proof.
  induction vs as [|v vs IH]; intros k x H; [destruct H|]. rewrite halves_n_cons in H. apply in_app_or in H as [H|H].
  - destruct (P k) eqn:E; [|destruct H]. exists O. cbn [List.length nth]. rewrite Nat.add_0_r. split; [lia|]. split; [exact E|].
    destruct H as [<-|[<-|[]]]; [left|right]; reflexivity.
  - destruct (IH (S k) x H) as [i [Li [Pi Xi]]]. exists (S i). cbn [List.length nth]. split; [lia|].
    replace (k + S i)%nat with (S k + i)%nat by lia. split; [exact Pi|exact Xi].
Qed.
Lemma pick_inv {A} (c1 c2 : bool) (a b r : A) :
  In r (if c1 && c2 then [] else (if negb c1 then [a] else []) ++ (if negb c2 then [b] else [])) ->
  (c1 = false /\ r = a) \/ (c2 = false /\ r = b).
Proof.
  destruct c1, c2; cbn; intros H; try tauto.
  - destruct H as [<-|[]]. right. split; reflexivity.
  - destruct H as [<-|[]]. left. split; reflexivity.
  - destruct H as [<-|[<-|[]]]; [left|right]; split; reflexivity.
Qed.

(* ---------- the standard-form point chosen for a point of the model *)
Definition tagged (name : string) : option (bool * string) :=
  match name with
  | String a (String b r) =>
      if Ascii.eqb a "$"%char then if Ascii.eqb b "p"%char then Some (true, r) else if Ascii.eqb b "m"%char then Some (false, r) else None else None
  | _ => None
  end.
Lemma tagged_p u : tagged (pname u) = Some (true, u).  Proof. reflexivity. Qed.
Lemma tagged_m u : tagged (mname u) = Some (false, u).  Proof. reflexivity. Qed.
Definition tau_of (kept : list string) (sigma : string -> R) (name : string) : R :=
  if existsb (String.eqb name) kept then sigma name
  else match tagged name with
       | Some (true, u) => Rmax (sigma u) 0
       | Some (false, u) => Rmax (- sigma u) 0
       | None => 0
       end.
Lemma existsb_eqb_in name l : existsb (String.eqb name) l = true <-> In name l.
Proof.
  split.
  - intros H. apply existsb_exists in H as [x [Hx E]]. apply String.eqb_eq in E. subst x. exact Hx.
  - intros H. apply existsb_exists. exists name. split; [exact H|apply String.eqb_refl].
Qed.
Lemma tau_of_kept kept sigma v : In v kept -> tau_of kept sigma v = sigma v.
Proof. intros H. unfold tau_of. rewrite (proj2 (existsb_eqb_in v kept) H). reflexivity. Qed.
Lemma tau_of_p kept sigma u : ~ In (pname u) kept -> tau_of kept sigma (pname u) = Rmax (sigma u) 0.
Proof.
  intros H. unfold tau_of. destruct (existsb (String.eqb (pname u)) kept) eqn:E; [apply existsb_eqb_in in E; contradiction|].
  rewrite tagged_p. reflexivity.
Qed.
Lemma tau_of_m kept sigma u : ~ In (mname u) kept -> tau_of kept sigma (mname u) = Rmax (- sigma u) 0.
Proof.
  intros H. unfold tau_of. destruct (existsb (String.eqb (mname u)) kept) eqn:E; [apply existsb_eqb_in in E; contradiction|].
  rewrite tagged_m. reflexivity.
Qed.
Lemma tau_of_nonneg kept sigma : (forall v, In v kept -> 0 <= sigma v) -> forall name, 0 <= tau_of kept sigma name.
Proof.
  intros H name. unfold tau_of. destruct (existsb (String.eqb name) kept) eqn:E; [apply H; apply existsb_eqb_in; exact E|].
  destruct (tagged name) as [[[|] u]|]; [apply Rmax_r|apply Rmax_r|lra].
Qed.
Lemma split_parts a : Rmax a 0 - Rmax (- a) 0 = a.
Proof. unfold Rmax. destruct (Rle_dec a 0), (Rle_dec (- a) 0); lra. Qed.

Lemma Forall2_in_r {A B} (Q : A -> B -> Prop) l m b : Forall2 Q l m -> In b m -> exists a, In a l /\ Q a b.
Proof.
  induction 1 as [|x y l m Hxy _ IH]; intros Hin; [destruct Hin|]. destruct Hin as [<-|Hin]; [exists x; split; [left; reflexivity|exact Hxy]|].
  destruct (IH Hin) as [a [Ha Qa]]. exists a. split; [right; exact Ha|exact Qa].
Qed.

(* ---------- the theorem *)
Section Forward.
  Variable L : linmodel.
  Let vars := lm_vars L.
  Let dom := lm_domain L.
  Let n := List.length vars.
  Let P := fun i => test_free dom (nth i vars ""%string).
  Let free := filter P (seq 0 n).

  Theorem standard_form_forward S :
    to_standard_form L = inr S -> lin_okb L = true -> NoDup (sm_vars S) ->
    forall sigma,
      (forall r, In r (lm_rows L) -> row_holds vars sigma r) ->
      (forall v t, In v vars -> al_get dom v = Some t -> in_dom t (sigma v)) ->
      exists tau, sat_std S tau /\ forall v, In v vars -> back_point dom tau v = sigma v.
  Proof.
    intros HS OK ND sigma Hrows Hdom.
    unfold lin_okb in OK. apply andb_true_iff in OK as [OK Dok]. apply andb_true_iff in OK as [Rok Ook].
    fold vars in Rok, Ook. fold dom in Dok.
    destruct (std_form_inv L S HS) as [brows [eqs0 [vars3 [total' [RK [HB [NA [_ ES]]]]]]]].
    fold vars dom in HB, RK.
    pose proof HB as HBf. rewrite bound_rows_as_fold in HBf. apply fold_opt in HBf as [_ [Hfor Hback]].
    assert (Hty : forall i, (i < n)%nat -> exists t, al_get dom (nth i vars ""%string) = Some t /\ is_real_kind t = true).
    { intros i Li. pose proof (in_combine_seq ""%string vars 0 i Li) as Hp. cbn [Nat.add] in Hp. destruct (Hfor _ Hp) as [e [Ge _]].
      unfold brows_of in Ge. cbn [snd] in Ge. destruct (al_get dom (nth i vars ""%string)) as [t|] eqn:G; [|discriminate]. exists t. split; [reflexivity|].
      exact (proj1 (forallb_forall _ _) RK (_, t) (al_get_in _ _ _ G)). }
    set (kept := remove_from 0 vars free).
    set (tau0 := tau_of kept sigma).
    assert (V2 : std_vars2 L = kept ++ halves_n P 0 vars) by exact (std_vars2_eq L).
    destruct (normalize_all_vars _ _ _ _ _ _ _ NA) as [added E3].
    assert (Svars : sm_vars S = vars3) by (rewrite ES; reflexivity).
    assert (ND3 : NoDup vars3) by (rewrite <- Svars; exact ND).
    assert (ND2 : NoDup (kept ++ halves_n P 0 vars)). { rewrite E3, V2 in ND3. exact (NoDup_app_l _ _ ND3). }
    assert (Hkept : forall v, In v kept -> 0 <= sigma v).
    { intros v Hv. destruct (in_remove_from_inv ""%string free vars 0 v Hv) as [i [Li [Ni Ei]]]. cbn [Nat.add] in Ei.
      change (is_free_idx free i = false) in Ei. unfold free in Ei. rewrite is_free_spec_gen in Ei by exact Li. unfold P in Ei. rewrite Ni in Ei.
      destruct (Hty i Li) as [t [G Kt]]. rewrite Ni in G. unfold test_free in Ei. rewrite G in Ei.
      assert (Iv : In v vars) by (rewrite <- Ni; apply nth_In; exact Li).
      specialize (Hdom v t Iv G). destruct t; try discriminate. cbn [in_dom] in Hdom. exact (proj1 Hdom). }
    assert (Hback0 : forall v, In v vars -> back_point dom tau0 v = sigma v).
    { intros v Hv. destruct (In_nth vars v ""%string Hv) as [i [Li Ni]]. unfold back_point. destruct (test_free dom v) eqn:Tf.
      - assert (Pi : P (0 + i)%nat = true) by (cbn [Nat.add]; unfold P; rewrite Ni; exact Tf).
        destruct (in_halves_n P vars 0 i Li Pi) as [Ip Im]. rewrite Ni in Ip, Im.
        unfold tau0. rewrite tau_of_p, tau_of_m; [apply split_parts| |].
        + intros K. exact (NoDup_app_disjoint _ _ _ ND2 K Im).
        + intros K. exact (NoDup_app_disjoint _ _ _ ND2 K Ip).
      - unfold tau0. apply tau_of_kept. rewrite <- Ni. apply in_remove_from; [exact Li|]. cbn [Nat.add].
        change (is_free_idx free i = false). unfold free. rewrite is_free_spec_gen by exact Li. unfold P. rewrite Ni. exact Tf. }
    assert (Hall : forall r, In r (lm_rows L ++ brows) -> row_holds vars sigma r).
    { intros r Hr. apply in_app_or in Hr as [Hr|Hr]; [apply Hrows; exact Hr|].
      destruct (Hback r Hr) as [[]|[[i v] [e [Hp [Ge He]]]]].
      destruct (in_combine_seq_inv ""%string vars 0 i v Hp) as [Li Ni]. rewrite Nat.sub_0_r in Ni.
      unfold brows_of in Ge. cbn [fst snd] in Ge. destruct (al_get dom v) as [t|] eqn:G; [|discriminate].
      assert (Iv : In v vars) by (rewrite <- Ni; apply nth_In; lia).
      pose proof (Hdom v t Iv G) as D. pose proof (dom_okb_get dom v t Dok G) as K.
      assert (U : dot (unit_vec (List.length vars) i) vars sigma = sigma v) by (rewrite dot_unit_vec by lia; rewrite Ni; reflexivity).
      destruct t as [| |mn mx|mn mx]; inversion Ge; subst e; clear Ge; try (destruct He; fail); destruct K as [K1 K2]; cbn [in_dom] in D.
      - apply pick_inv in He as [[C1 ->]|[C2 ->]]; unfold row_holds, lo_row, hi_row; cbn [lr_cmp lr_coeffs lr_rhs cmp_holds]; rewrite U.
        + destruct (finx_inv _ K1) as [q ->]. cbn [xq_le_R xval] in *. lra.
        + destruct mx as [q'| | |]; try discriminate. cbn [R_le_xq xval] in *. lra.
      - apply pick_inv in He as [[C1 ->]|[C2 ->]]; unfold row_holds, lo_row, hi_row; cbn [lr_cmp lr_coeffs lr_rhs cmp_holds]; rewrite U.
        + destruct mn as [q| | |]; try discriminate. cbn [xq_le_R xval] in *. lra.
        + destruct mx as [q'| | |]; try discriminate. cbn [R_le_xq xval] in *. lra. }
    assert (Hok : Forall (lrow_ok n) (lm_rows L ++ brows)).
    { apply Forall_app. split.
      - apply Forall_forall. intros r Hr. pose proof (proj1 (forallb_forall _ _) Rok r Hr) as K. apply andb_true_iff in K as [K1 K2].
        destruct (coeffs_okb_spec _ _ K1) as [A B]. split; [exact A|split; [exact B|exact K2]].
      - apply Forall_forall. intros r Hr. destruct (Hback r Hr) as [[]|[p [e [_ [G He]]]]].
        exact (proj1 (Forall_forall _ _) (brows_of_ok n dom p e Dok G) r He). }
    assert (Hok1 : Forall (row_ok (List.length (std_vars2 L))) (std_rows1 L brows)).
    { unfold std_rows1. apply Forall_forall. intros r1 Hr1. apply in_map_iff in Hr1 as [r0 [<- Hr0]].
      destruct (proj1 (Forall_forall _ _) Hok r0 Hr0) as [L0 [F0 R0]].
      destruct (surgery_ok L (lr_coeffs r0) L0 F0) as [A B].
      unfold row_ok. cbn [lr_coeffs lr_rhs]. split; [exact A|]. split; [exact B|exact R0]. }
    assert (Hrows1 : forall r1, In r1 (std_rows1 L brows) -> cmp_holds (lr_cmp r1) (dot (lr_coeffs r1) (std_vars2 L) tau0) (xval (lr_rhs r1))).
    { intros r1 Hr1. unfold std_rows1 in Hr1. apply in_map_iff in Hr1 as [r [<- Hr]]. cbn [lr_cmp lr_coeffs lr_rhs].
      destruct (proj1 (Forall_forall _ _) Hok r Hr) as [L0 [F0 _]].
      assert (X : dot (remove_many (ext_c vars P (lr_coeffs r)) free) (std_vars2 L) tau0 = dot (lr_coeffs r) vars sigma).
      { transitivity (dot_back free tau0 0 (lr_coeffs r) vars); [exact (surgery_value vars P tau0 _ L0 F0)|].
        rewrite (dot_back_is_dot dom tau0 vars). apply dot_ext. exact Hback0. }
      change (cmp_holds (lr_cmp r) (dot (remove_many (ext_c vars P (lr_coeffs r)) free) (std_vars2 L) tau0) (xval (lr_rhs r))).
      rewrite X. exact (Hall r Hr). }
    assert (Hnn0 : forall v, In v (std_vars2 L) -> 0 <= tau0 v) by (intros v _; apply tau_of_nonneg; exact Hkept).
    rewrite <- (std_vars2_len L) in NA.
    destruct (normalize_all_forward (std_rows1 L brows) O O (std_vars2 L) [] eqs0 vars3 total' (List.length (std_vars2 L)) tau0 (le_n _) Hok1 ND3 NA Hrows1 Hnn0)
      as [news [tau' [E1 [Ag [Nn Eq]]]]].
    destruct (normalize_all_spec (std_rows1 L brows) O O (std_vars2 L) [] eqs0 vars3 total' (List.length (std_vars2 L)) (le_n _) Hok1 NA)
      as [news' [added' [E1' [_ [E3' F2]]]]].
    cbn [app] in E1, E1'. subst eqs0. subst news'.
    exists tau'. split.
    - rewrite ES. split; cbn [sm_cons sm_vars].
      + intros e' He'. apply in_map_iff in He' as [e1 [<- He1]]. apply in_map_iff in He1 as [e [<- He]]. cbn [eq_coeffs eq_rhs].
        destruct (Forall2_in_r _ _ _ _ F2 He) as [r [_ [_ [Le _]]]].
        rewrite !dot_resize; [apply Eq; exact He|lia|rewrite resize_length; lia].
      + exact Nn.
    - intros v Hv. rewrite <- (Hback0 v Hv). unfold back_point.
      destruct (In_nth vars v ""%string Hv) as [i [Li Ni]]. destruct (test_free dom v) eqn:Tf.
      + assert (Pi : P (0 + i)%nat = true) by (cbn [Nat.add]; unfold P; rewrite Ni; exact Tf).
        destruct (in_halves_n P vars 0 i Li Pi) as [Ip Im]. rewrite Ni in Ip, Im.
        rewrite !Ag; [reflexivity| |]; rewrite V2; apply in_or_app; right; assumption.
      + apply Ag. rewrite V2. apply in_or_app. left. rewrite <- Ni. apply in_remove_from; [exact Li|]. cbn [Nat.add].
        change (is_free_idx free i = false). unfold free. rewrite is_free_spec_gen by exact Li. unfold P. rewrite Ni. exact Tf.
  Qed.
End Forward.

(* ---------- the premises are met on the model of StandardizeBack (free variable, <=, >= with negative rhs, bound, max) *)
Local Open Scope string_scope.
Definition sigma0 (v : string) : R := if String.eqb v "x" then 2 else if String.eqb v "y" then 1 else 0.
Example forward_premises_meet :
  exists S, to_standard_form L0 = inr S /\ lin_okb L0 = true /\ NoDup (sm_vars S) /\
    (forall r, In r (lm_rows L0) -> row_holds (lm_vars L0) sigma0 r) /\
    (forall v t, In v (lm_vars L0) -> al_get (lm_domain L0) v = Some t -> in_dom t (sigma0 v)).
Proof.
  eexists. split; [vm_compute; reflexivity|]. split; [vm_compute; reflexivity|]. split; [|split].
  - cbn [sm_vars]. repeat (constructor; [cbn [In]; intros K; repeat (destruct K as [K|K]; [discriminate K|]); exact K|]). constructor.
  - intros r Hr. cbn [lm_rows L0 In] in Hr. destruct Hr as [<-|[<-|[]]]; unfold row_holds; cbn [lr_cmp lr_coeffs lr_rhs lm_vars L0 dot xval cmp_holds];
      unfold sigma0; cbn [String.eqb Ascii.eqb Bool.eqb]; unfold Q2R; cbn; lra.
  - intros v t Hv G. cbn [lm_vars L0 In] in Hv. destruct Hv as [<-|[<-|[]]]; vm_compute in G; inversion G; subst t; cbn [in_dom xq_le_R R_le_xq];
      unfold sigma0; cbn [String.eqb Ascii.eqb Bool.eqb]; unfold Q2R; cbn; lra.
Qed.
