(* C18: Exp::linearize is structurally recursive: with fuel above the depth of the expression the fuelled model never
   reports exhaustion, whatever the state and whatever else goes wrong (the other errors are the code's own). *)
From Coq Require Import QArith ZArith NArith Bool List String Lia.
From Rooc Require Import Base.XQ Model.Exp Model.Simplify Model.Flatten Model.Bounds Model.Linearize Proof.ExpInd.
Import ListNotations.
Local Close Scope Q_scope.
Local Open Scope string_scope.
Local Open Scope list_scope.

Definition nf {A} (m : M A) : Prop := forall s, m s <> inl EFuel.

Lemma nf_ret {A} (x : A) : nf (ret x).
Proof. intros s H. discriminate. Qed.
Lemma nf_fail {A} e : e <> EFuel -> nf (@fail A e).
Proof. intros Hn s H. inversion H. contradiction. Qed.
Lemma nf_bind {A B} (m : M A) (f : A -> M B) : nf m -> (forall x, nf (f x)) -> nf (bind m f).
Proof. intros Hm Hf s. unfold bind. pose proof (Hm s) as Hs. destruct (m s) as [e|[x s1]]; [intros H; apply Hs; inversion H; reflexivity|apply Hf]. Qed.
Lemma nf_get_st : nf get_st.
Proof. intros s H. discriminate. Qed.
Lemma nf_next_id k : nf (next_id k).
Proof. intros s H. discriminate. Qed.
Lemma nf_add_constraint c : nf (add_constraint c).
Proof. intros s H. discriminate. Qed.
Lemma nf_declare n t : nf (declare_variable n t).
Proof. intros s. unfold declare_variable. destruct (al_mem (s_dom s) n); discriminate. Qed.
Lemma nf_mapMM {A B} (f : A -> M B) l : (forall x, In x l -> nf (f x)) -> nf (mapMM f l).
Proof.
  induction l as [|x l IH]; intros Hf; cbn [mapMM]; [apply nf_ret|].
  apply nf_bind; [apply Hf; left; reflexivity|]. intros y. apply nf_bind; [apply IH; intros z Hz; apply Hf; right; exact Hz|]. intros ys. apply nf_ret.
Qed.
Lemma nf_iterM {A} (f : A -> M unit) l : (forall x, nf (f x)) -> nf (iterM f l).
Proof. intros Hf. induction l as [|x l IH]; cbn [iterM]; [apply nf_ret|]. apply nf_bind; [apply Hf|intros _; exact IH]. Qed.

(* depth of list members *)
Lemma depth_list l : (fix ldepth (l : list exp) : nat := match l with [] => O | x :: xs => Nat.max (exp_depth x) (ldepth xs) end) l
  = fold_right (fun x acc => Nat.max (exp_depth x) acc) O l.
Proof. induction l as [|x l IH]; [reflexivity|]. cbn [fold_right]. rewrite <- IH. reflexivity. Qed.
Lemma depth_in l x : In x l -> (exp_depth x <= fold_right (fun x acc => Nat.max (exp_depth x) acc) O l)%nat.
Proof. induction l as [|y l IH]; intros Hin; [destruct Hin|]. cbn [fold_right]. destruct Hin as [->|H]; [lia|]. specialize (IH H). lia. Qed.
Lemma depth_Max l x : In x l -> (exp_depth x < exp_depth (Max l))%nat.
Proof. intros H. cbn [exp_depth]. rewrite depth_list. pose proof (depth_in l x H). lia. Qed.
Lemma depth_Min l x : In x l -> (exp_depth x < exp_depth (Min l))%nat.
Proof. intros H. cbn [exp_depth]. rewrite depth_list. pose proof (depth_in l x H). lia. Qed.
Lemma depth_And l x : In x l -> (exp_depth x < exp_depth (And l))%nat.
Proof. intros H. cbn [exp_depth]. rewrite depth_list. pose proof (depth_in l x H). lia. Qed.
Lemma depth_Or l x : In x l -> (exp_depth x < exp_depth (Or l))%nat.
Proof. intros H. cbn [exp_depth]. rewrite depth_list. pose proof (depth_in l x H). lia. Qed.

Section Step.
  Variable rec : exp -> req -> M lctx.
  Variable d : nat.
  Hypothesis Hrec : forall e r, (exp_depth e <= d)%nat -> nf (rec e r).

  Lemma nf_lbo l r : (forall x, In x l -> (exp_depth x <= d)%nat) -> nf (linearize_binary_operands rec l r).
  Proof.
    intros Hl. unfold linearize_binary_operands. apply nf_mapMM. intros x Hx. apply nf_bind; [apply Hrec; apply Hl; exact Hx|].
    intros c. apply nf_bind; [apply nf_get_st|]. intros s. destruct (is_binary_context c s); [apply nf_ret|apply nf_fail; discriminate].
  Qed.
  Lemma nf_reify name cs : nf (reify_logic_variable name cs).
  Proof.
    unfold reify_logic_variable. apply nf_bind; [apply nf_iterM; intros p; apply nf_add_constraint|]. intros _.
    apply nf_bind; [apply nf_declare|]. intros _. apply nf_ret.
  Qed.
  Lemma nth_depth (l : list exp) i : (forall x, In x l -> (exp_depth x <= d)%nat) -> (1 <= d)%nat -> (exp_depth (nth i l (Num NaN)) <= d)%nat.
  Proof. intros Hl Hd. destruct (nth_in_or_default i l (Num NaN)) as [H|H]; [apply Hl; exact H|rewrite H; cbn; exact Hd]. Qed.
  Lemma nf_extreme k l r : (forall x, In x l -> (exp_depth x <= d)%nat) -> (1 <= d)%nat -> nf (linearize_extreme rec k l r).
  Proof.
    intros Hl Hd. unfold linearize_extreme. destruct l as [|x0 l0]; [apply nf_fail; discriminate|]. set (l := x0 :: l0) in *.
    apply nf_bind; [apply nf_get_st|]. intros s0. cbv zeta.
    destruct (retained_indices k (map (bounds_of (s_an s0)) l)) as [|i [|i2 ret]] eqn:Er; [apply nf_fail; discriminate|apply Hrec; apply nth_depth; assumption|].
    match goal with |- nf (if ?b then _ else _) => destruct b end; [apply nf_fail; discriminate|].
    apply nf_bind; [apply nf_next_id|]. intros id. apply nf_bind; [apply nf_declare|]. intros _.
    apply nf_bind.
    { apply nf_mapMM. intros e He. apply nf_bind; [|intros v; apply nf_ret]. apply Hrec.
      apply in_map_iff in He as [j [<- _]]. apply nth_depth; assumption. }
    intros operands.
    match goal with |- nf (if ?b then _ else _) => destruct b end.
    - apply nf_bind; [apply nf_iterM; intros o; apply nf_add_constraint|]. intros _. apply nf_ret.
    - apply nf_bind; [apply nf_iterM; intros j; apply nf_declare|]. intros _.
      apply nf_bind; [|intros _; apply nf_bind; [apply nf_add_constraint|intros _; apply nf_ret]].
      apply nf_iterM. intros [[o b] sl]. destruct k; (apply nf_bind; [apply nf_add_constraint|intros _; apply nf_add_constraint]).
  Qed.
End Step.

Theorem lin_never_out_of_fuel : forall n e r, (exp_depth e <= n)%nat -> nf (lin n e r).
Proof.
  induction n as [|n IH]; intros e r Hd.
  - destruct e; cbn in Hd; lia.
  - cbn [lin]. assert (Hsub : forall x r0, (exp_depth x <= n)%nat -> nf (lin n x r0)) by (intros; apply IH; assumption).
    assert (H1 : (1 <= n)%nat \/ n = O) by lia.
    destruct e; cbn [lin_step].
    + apply nf_ret.
    + apply nf_ret.
    + (* Abs *) cbn [exp_depth] in Hd. apply nf_bind; [apply nf_get_st|]. intros s0. cbv zeta.
      destruct (xq_geb _ _); [apply Hsub; lia|]. destruct (xq_leb _ _); [apply nf_bind; [apply Hsub; lia|intros v; apply nf_ret]|].
      match goal with |- nf (if ?b then _ else _) => destruct b end; [apply nf_fail; discriminate|].
      apply nf_bind; [apply Hsub; lia|]. intros c. apply nf_bind; [apply nf_next_id|]. intros id.
      apply nf_bind; [apply nf_declare|]. intros _. apply nf_bind; [apply nf_add_constraint|]. intros _. apply nf_bind; [apply nf_add_constraint|]. intros _.
      apply nf_bind; [|intros _; apply nf_ret].
      match goal with |- nf (if ?b then _ else _) => destruct b end; [|apply nf_ret].
      apply nf_bind; [apply nf_declare|]. intros _. apply nf_bind; [apply nf_add_constraint|]. intros _. apply nf_add_constraint.
    + (* Min *) destruct l as [|x0 l0]; [apply nf_fail; discriminate|].
      apply (nf_extreme (lin n) n Hsub); [intros x Hx; pose proof (depth_Min _ x Hx); lia|]. pose proof (depth_Min (x0 :: l0) x0 (or_introl eq_refl)). destruct x0; cbn in *; lia.
    + (* Max *) destruct l as [|x0 l0]; [apply nf_fail; discriminate|].
      apply (nf_extreme (lin n) n Hsub); [intros x Hx; pose proof (depth_Max _ x Hx); lia|]. pose proof (depth_Max (x0 :: l0) x0 (or_introl eq_refl)). destruct x0; cbn in *; lia.
    + (* And *) destruct l as [|x0 l0]; [apply nf_ret|].
      apply nf_bind; [apply (nf_lbo (lin n) n Hsub); intros x Hx; pose proof (depth_And _ x Hx); lia|]. intros ops.
      apply nf_bind; [apply nf_next_id|]. intros id. apply nf_reify.
    + (* Or *) destruct l as [|x0 l0]; [apply nf_ret|].
      apply nf_bind; [apply (nf_lbo (lin n) n Hsub); intros x Hx; pose proof (depth_Or _ x Hx); lia|]. intros ops.
      apply nf_bind; [apply nf_next_id|]. intros id. apply nf_reify.
    + (* Not *) cbn [exp_depth] in Hd. apply nf_bind; [apply Hsub; lia|]. intros c. apply nf_bind; [apply nf_get_st|]. intros s.
      destruct (is_binary_context c s); [apply nf_ret|apply nf_fail; discriminate].
    + (* Xor *) cbn [exp_depth] in Hd. apply nf_bind; [apply (nf_lbo (lin n) n Hsub); intros x [<-|[<-|[]]]; lia|]. intros ops.
      apply nf_bind; [apply nf_next_id|]. intros id. apply nf_reify.
    + (* Implies *) cbn [exp_depth] in Hd. apply nf_bind; [apply (nf_lbo (lin n) n Hsub); intros x [<-|[<-|[]]]; lia|]. intros ops.
      apply nf_bind; [apply nf_next_id|]. intros id. apply nf_reify.
    + (* Iff *) cbn [exp_depth] in Hd. apply nf_bind; [apply (nf_lbo (lin n) n Hsub); intros x [<-|[<-|[]]]; lia|]. intros ops.
      apply nf_bind; [apply nf_next_id|]. intros id. apply nf_reify.
    + (* BinOp *) cbn [exp_depth] in Hd. destruct op; try (apply nf_fail; discriminate).
      * apply nf_bind; [apply Hsub; lia|]. intros la. apply nf_bind; [apply Hsub; lia|]. intros lb. apply nf_ret.
      * apply nf_bind; [apply Hsub; lia|]. intros la. apply nf_bind; [apply Hsub; lia|]. intros lb. apply nf_ret.
      * destruct e1;
          try (match goal with |- nf (if ?b then _ else _) => destruct b end; [apply nf_ret|apply nf_bind; [apply Hsub; cbn [exp_depth] in *; lia|intros v; apply nf_ret]]);
          destruct e2; try (apply nf_fail; discriminate);
          (match goal with |- nf (if ?b then _ else _) => destruct b end; [apply nf_ret|apply nf_bind; [apply Hsub; cbn [exp_depth] in *; lia|intros v; apply nf_ret]]).
      * destruct e2; try (apply nf_fail; discriminate).
        match goal with |- nf (if ?b then _ else _) => destruct b end; [apply nf_fail; discriminate|apply nf_bind; [apply Hsub; lia|intros v; apply nf_ret]].
    + (* UnOp *) cbn [exp_depth] in Hd. destruct op; [|apply nf_fail; discriminate]. apply nf_bind; [apply Hsub; lia|]. intros v. apply nf_ret.
Qed.
Corollary linearize_exp_never_out_of_fuel e r s : linearize_exp e r s <> inl EFuel.
Proof. unfold linearize_exp, lin_fuel. apply lin_never_out_of_fuel. lia. Qed.
