(* C10: main soundness theorem for Exp::simplify, by induction on the fuel. *)
From Coq Require Import QArith Qreals Reals ZArith Bool List String Lra Lia.
From Rooc Require Import Base.XQ Model.Exp Model.Sem Model.Simplify
  Proof.XQFacts Proof.SemFacts Proof.SimplifySound Proof.SimplifyNary.
Import ListNotations.
Local Close Scope Q_scope.
Local Open Scope R_scope.
Local Open Scope list_scope.

Section S.
  Variable rho : string -> R.
  Notation evT := (evg rho true).

  Definition good (e e' : exp) : Prop :=
    (forall v, evT e = Some v -> evT e' = Some v) /\ (is_num e = true -> is_num e' = true).

  Lemma mapM_good (f : exp -> option exp) l : forall sl,
    (forall e e', In e l -> f e = Some e' -> good e e') ->
    mapM f l = Some sl ->
    (forall vs, evlist rho true l = Some vs -> evlist rho true sl = Some vs) /\
    (forall vs, evlist_ok rho true l = Some vs -> evlist_ok rho true sl = Some vs).
  Proof.
    induction l as [|e l IH]; intros sl Hg Hm; cbn [mapM] in Hm.
    - inversion Hm; subst. split; auto.
    - destruct (f e) as [e'|] eqn:Fe; [|discriminate].
      destruct (mapM f l) as [sl'|] eqn:Fl; [|discriminate]. inversion Hm; subst sl; clear Hm.
      destruct (Hg e e' (or_introl eq_refl) Fe) as [Gv Gn].
      destruct (IH sl' (fun a a' Hin => Hg a a' (or_intror Hin)) eq_refl) as [I1 I2].
      split; intros vs H; cbn [evlist evlist_ok] in *.
      + destruct (evT e) as [v|] eqn:Ee; [|discriminate].
        destruct (evlist rho true l) as [vs'|] eqn:El; [|discriminate].
        rewrite (Gv v eq_refl), (I1 vs' eq_refl). exact H.
      + destruct (evT e) as [v|] eqn:Ee; [|discriminate].
        destruct (evlist_ok rho true l) as [vs'|] eqn:El; [|discriminate].
        rewrite (Gv v eq_refl), (I2 vs' eq_refl).
        destruct (operand_ok true e v) eqn:Ok; [|discriminate].
        assert (Ok' : operand_ok true e' v = true).
        { unfold operand_ok in *. cbn [negb orb] in *. destruct (is_num e) eqn:Ne.
          - rewrite (Gn eq_refl). reflexivity.
          - cbn [orb] in Ok. rewrite Ok. apply orb_true_r. }
        rewrite Ok'. exact H.
  Qed.

  Lemma good_nonnum e e' : is_num e = false -> (forall v, evT e = Some v -> evT e' = Some v) -> good e e'.
  Proof. intros N H; split; [exact H|]. rewrite N; discriminate. Qed.

  Theorem simplify_f_good : forall n e e', simplify_f n e = Some e' -> good e e'.
  Proof.
    induction n as [|n IH]; intros e e' H; [discriminate|].
    destruct e; cbn [simplify_f] in H.
    - (* Num *) inversion H; subst. split; auto.
    - (* Var *) inversion H; subst. split; auto.
    - (* Abs *)
      destruct (simplify_f n e) as [s|] eqn:Es; [|discriminate]. cbn [option_map] in H. inversion H; subst e'.
      apply good_nonnum; [reflexivity|]. intros v Hv. apply simp_abs_sound.
      rewrite evg_Abs in *. destruct (evT e) as [w|] eqn:Ee; [|discriminate].
      rewrite (proj1 (IH _ _ Es) w Ee). exact Hv.
    - (* Min *)
      apply good_nonnum; [reflexivity|]. intros v Hv.
      destruct l as [|x l]; [inversion H; subst; exact Hv|].
      destruct (mapM (simplify_f n) (x :: l)) as [sl|] eqn:Em; [|discriminate].
      cbn [option_map] in H. inversion H; subst e'. apply simp_min_sound.
      destruct (mapM_good _ _ _ (fun a a' _ Ha => IH a a' Ha) Em) as [I1 _].
      rewrite evg_Min in *. destruct (evlist rho true (x :: l)) as [vs|] eqn:El; [|discriminate].
      rewrite (I1 vs eq_refl). exact Hv.
    - (* Max *)
      apply good_nonnum; [reflexivity|]. intros v Hv.
      destruct l as [|x l]; [inversion H; subst; exact Hv|].
      destruct (mapM (simplify_f n) (x :: l)) as [sl|] eqn:Em; [|discriminate].
      cbn [option_map] in H. inversion H; subst e'. apply simp_max_sound.
      destruct (mapM_good _ _ _ (fun a a' _ Ha => IH a a' Ha) Em) as [I1 _].
      rewrite evg_Max in *. destruct (evlist rho true (x :: l)) as [vs|] eqn:El; [|discriminate].
      rewrite (I1 vs eq_refl). exact Hv.
    - (* And *)
      apply good_nonnum; [reflexivity|]. intros v Hv.
      destruct (mapM (simplify_f n) l) as [sl|] eqn:Em; [|discriminate].
      cbn [option_map] in H. inversion H; subst e'.
      apply (simp_nary_sound rho true). cbn [nary_node].
      destruct (mapM_good _ _ _ (fun a a' _ Ha => IH a a' Ha) Em) as [_ I2].
      rewrite evg_And in *. destruct (evlist_ok rho true l) as [vs|] eqn:El; [|discriminate].
      rewrite (I2 vs eq_refl). exact Hv.
    - (* Or *)
      apply good_nonnum; [reflexivity|]. intros v Hv.
      destruct (mapM (simplify_f n) l) as [sl|] eqn:Em; [|discriminate].
      cbn [option_map] in H. inversion H; subst e'.
      apply (simp_nary_sound rho false). cbn [nary_node].
      destruct (mapM_good _ _ _ (fun a a' _ Ha => IH a a' Ha) Em) as [_ I2].
      rewrite evg_Or in *. destruct (evlist_ok rho true l) as [vs|] eqn:El; [|discriminate].
      rewrite (I2 vs eq_refl). exact Hv.
    - (* Not *)
      destruct (simplify_f n e) as [s|] eqn:Es; [|discriminate]. cbn [option_map] in H. inversion H; subst e'.
      apply good_nonnum; [reflexivity|]. intros v Hv. apply simp_not_sound.
      rewrite evg_Not in *. destruct (evT e) as [w|] eqn:Ee; [|discriminate].
      rewrite (proj1 (IH _ _ Es) w Ee). exact Hv.
    - (* Xor *)
      destruct (simplify_f n e1) as [l|] eqn:E1; [|discriminate].
      destruct (simplify_f n e2) as [r|] eqn:E2; [|discriminate]. inversion H; subst e'.
      apply good_nonnum; [reflexivity|]. intros v Hv. apply simp_xor_sound.
      rewrite evg_Xor in *. destruct (evT e1) as [x|] eqn:Ex; [|discriminate].
      destruct (evT e2) as [y|] eqn:Ey; [|discriminate].
      rewrite (proj1 (IH _ _ E1) x Ex), (proj1 (IH _ _ E2) y Ey). exact Hv.
    - (* Implies *)
      destruct (simplify_f n e1) as [l|] eqn:E1; [|discriminate].
      destruct (simplify_f n e2) as [r|] eqn:E2; [|discriminate]. inversion H; subst e'.
      apply good_nonnum; [reflexivity|]. intros v Hv. apply simp_implies_sound.
      rewrite evg_Implies in *. destruct (evT e1) as [x|] eqn:Ex; [|discriminate].
      destruct (evT e2) as [y|] eqn:Ey; [|discriminate].
      rewrite (proj1 (IH _ _ E1) x Ex), (proj1 (IH _ _ E2) y Ey). exact Hv.
    - (* Iff *)
      destruct (simplify_f n e1) as [l|] eqn:E1; [|discriminate].
      destruct (simplify_f n e2) as [r|] eqn:E2; [|discriminate]. inversion H; subst e'.
      apply good_nonnum; [reflexivity|]. intros v Hv. apply simp_iff_sound.
      rewrite evg_Iff in *. destruct (evT e1) as [x|] eqn:Ex; [|discriminate].
      destruct (evT e2) as [y|] eqn:Ey; [|discriminate].
      rewrite (proj1 (IH _ _ E1) x Ex), (proj1 (IH _ _ E2) y Ey). exact Hv.
    - (* BinOp *)
      apply good_nonnum; [reflexivity|]. intros v Hv.
      rewrite evg_BinOp in Hv.
      destruct (evT e1) as [x|] eqn:Ex; [|discriminate].
      destruct (evT e2) as [y|] eqn:Ey; [|destruct op; discriminate].
      destruct (simplify_f n e1) as [l|] eqn:E1; [|destruct op; discriminate].
      destruct (simplify_f n e2) as [r|] eqn:E2; [|destruct op; discriminate].
      destruct (IH _ _ E1) as [G1 N1]. destruct (IH _ _ E2) as [G2 N2].
      specialize (G1 x Ex). specialize (G2 y Ey).
      assert (Okl : operand_ok true e1 x = true -> operand_ok true l x = true).
      { unfold operand_ok; cbn [negb orb]. destruct (is_num e1); [rewrite (N1 eq_refl); auto|].
        cbn [orb]. intros ->. apply orb_true_r. }
      assert (Okr : operand_ok true e2 y = true -> operand_ok true r y = true).
      { unfold operand_ok; cbn [negb orb]. destruct (is_num e2); [rewrite (N2 eq_refl); auto|].
        cbn [orb]. intros ->. apply orb_true_r. }
      destruct op.
      + inversion H; subst e'. apply simp_add_sound. rewrite evg_BinOp, G1, G2. exact Hv.
      + inversion H; subst e'. apply simp_sub_sound. rewrite evg_BinOp, G1, G2. exact Hv.
      + inversion H; subst e'. apply simp_mul_sound. rewrite evg_BinOp, G1, G2. exact Hv.
      + inversion H; subst e'. apply simp_div_sound. rewrite evg_BinOp, G1, G2. exact Hv.
      + (* and *)
        apply (proj1 (IH _ _ H)). rewrite evg_And. cbn [evlist_ok]. rewrite G1, G2.
        destruct (operand_ok true e1 x) eqn:O1; [|discriminate].
        destruct (operand_ok true e2 y) eqn:O2; [|discriminate].
        rewrite (Okl eq_refl), (Okr eq_refl). cbn [option_map forallb]. cbn [andb ev_binop] in Hv.
        rewrite andb_true_r. exact Hv.
      + (* or *)
        apply (proj1 (IH _ _ H)). rewrite evg_Or. cbn [evlist_ok]. rewrite G1, G2.
        destruct (operand_ok true e1 x) eqn:O1; [|discriminate].
        destruct (operand_ok true e2 y) eqn:O2; [|discriminate].
        rewrite (Okl eq_refl), (Okr eq_refl). cbn [option_map existsb]. cbn [andb ev_binop] in Hv.
        rewrite orb_false_r. exact Hv.
      + apply (proj1 (IH _ _ H)). rewrite evg_Xor, G1, G2. exact Hv.
      + apply (proj1 (IH _ _ H)). rewrite evg_Implies, G1, G2. exact Hv.
      + apply (proj1 (IH _ _ H)). rewrite evg_Iff, G1, G2. exact Hv.
    - (* UnOp *)
      apply good_nonnum; [reflexivity|]. intros v Hv. destruct op.
      + destruct (simplify_f n e) as [s|] eqn:Es; [|discriminate]. cbn [option_map] in H. inversion H; subst e'.
        apply simp_neg_sound. rewrite evg_Neg in *. destruct (evT e) as [w|] eqn:Ee; [|discriminate].
        rewrite (proj1 (IH _ _ Es) w Ee). exact Hv.
      + destruct (simplify_f n e) as [s|] eqn:Es; [|discriminate]. cbn [option_map] in H. inversion H; subst e'.
        apply simp_not_sound. rewrite evg_UNot in Hv. rewrite evg_Not.
        destruct (evT e) as [w|] eqn:Ee; [|discriminate].
        rewrite (proj1 (IH _ _ Es) w Ee). exact Hv.
  Qed.
End S.

(* typed semantics refines the plain one: whenever it is defined, the plain semantics agrees *)
Lemma evT_ev_list rho (l : list exp) :
  (forall e v, In e l -> evg rho true e = Some v -> evg rho false e = Some v) ->
  (forall vs, evlist rho true l = Some vs -> evlist rho false l = Some vs) /\
  (forall vs, evlist_ok rho true l = Some vs -> evlist_ok rho false l = Some vs).
Proof.
  induction l as [|e l IH]; intros H; [split; auto|].
  destruct (IH (fun a v Hin => H a v (or_intror Hin))) as [I1 I2].
  split; intros vs Hv; cbn [evlist evlist_ok] in *.
  - destruct (evg rho true e) as [v|] eqn:Ee; [|discriminate].
    destruct (evlist rho true l) as [vs'|] eqn:El; [|discriminate].
    rewrite (H e v (or_introl eq_refl) Ee), (I1 vs' eq_refl). exact Hv.
  - destruct (evg rho true e) as [v|] eqn:Ee; [|discriminate].
    destruct (evlist_ok rho true l) as [vs'|] eqn:El; [|discriminate].
    rewrite (H e v (or_introl eq_refl) Ee), (I2 vs' eq_refl).
    destruct (operand_ok true e v); [|discriminate]. exact Hv.
Qed.

Lemma evT_ev rho : forall e v, evT rho e = Some v -> ev rho e = Some v.
Proof.
  unfold evT, ev.
  fix IH 1. intros e v H. destruct e.
  - exact H.
  - exact H.
  - rewrite evg_Abs in *. destruct (evg rho true e) as [w|] eqn:E; [|discriminate]. rewrite (IH _ _ E). exact H.
  - rewrite evg_Min in *. destruct (evlist rho true l) as [vs|] eqn:E; [|discriminate].
    assert (A : forall a w, In a l -> evg rho true a = Some w -> evg rho false a = Some w).
    { clear -IH. induction l as [|x l IHl]; intros a w Hin Ha; [destruct Hin|].
      destruct Hin as [<-|Hin]; [apply IH; exact Ha|apply (IHl a w Hin Ha)]. }
    rewrite (proj1 (evT_ev_list rho l A) vs E). exact H.
  - rewrite evg_Max in *. destruct (evlist rho true l) as [vs|] eqn:E; [|discriminate].
    assert (A : forall a w, In a l -> evg rho true a = Some w -> evg rho false a = Some w).
    { clear -IH. induction l as [|x l IHl]; intros a w Hin Ha; [destruct Hin|].
      destruct Hin as [<-|Hin]; [apply IH; exact Ha|apply (IHl a w Hin Ha)]. }
    rewrite (proj1 (evT_ev_list rho l A) vs E). exact H.
  - rewrite evg_And in *. destruct (evlist_ok rho true l) as [vs|] eqn:E; [|discriminate].
    assert (A : forall a w, In a l -> evg rho true a = Some w -> evg rho false a = Some w).
    { clear -IH. induction l as [|x l IHl]; intros a w Hin Ha; [destruct Hin|].
      destruct Hin as [<-|Hin]; [apply IH; exact Ha|apply (IHl a w Hin Ha)]. }
    rewrite (proj2 (evT_ev_list rho l A) vs E). exact H.
  - rewrite evg_Or in *. destruct (evlist_ok rho true l) as [vs|] eqn:E; [|discriminate].
    assert (A : forall a w, In a l -> evg rho true a = Some w -> evg rho false a = Some w).
    { clear -IH. induction l as [|x l IHl]; intros a w Hin Ha; [destruct Hin|].
      destruct Hin as [<-|Hin]; [apply IH; exact Ha|apply (IHl a w Hin Ha)]. }
    rewrite (proj2 (evT_ev_list rho l A) vs E). exact H.
  - rewrite evg_Not in *. destruct (evg rho true e) as [w|] eqn:E; [|discriminate]. rewrite (IH _ _ E). exact H.
  - rewrite evg_Xor in *. destruct (evg rho true e1) as [x|] eqn:E1; [|discriminate].
    destruct (evg rho true e2) as [y|] eqn:E2; [|discriminate]. rewrite (IH _ _ E1), (IH _ _ E2). exact H.
  - rewrite evg_Implies in *. destruct (evg rho true e1) as [x|] eqn:E1; [|discriminate].
    destruct (evg rho true e2) as [y|] eqn:E2; [|discriminate]. rewrite (IH _ _ E1), (IH _ _ E2). exact H.
  - rewrite evg_Iff in *. destruct (evg rho true e1) as [x|] eqn:E1; [|discriminate].
    destruct (evg rho true e2) as [y|] eqn:E2; [|discriminate]. rewrite (IH _ _ E1), (IH _ _ E2). exact H.
  - rewrite evg_BinOp in *. destruct (evg rho true e1) as [x|] eqn:E1; [|discriminate].
    destruct (evg rho true e2) as [y|] eqn:E2; [|discriminate]. rewrite (IH _ _ E1), (IH _ _ E2).
    destruct op; try exact H; unfold operand_ok at 1 2; cbn [negb orb andb];
      destruct (operand_ok true e1 x && operand_ok true e2 y); [exact H|discriminate|exact H|discriminate].
  - destruct op.
    + rewrite evg_Neg in *. destruct (evg rho true e) as [w|] eqn:E; [|discriminate]. rewrite (IH _ _ E). exact H.
    + rewrite evg_UNot in *. destruct (evg rho true e) as [w|] eqn:E; [|discriminate]. rewrite (IH _ _ E). exact H.
Qed.

(* the property at the level of the model's entry point *)
Theorem simplify_sound_typed rho e e' v :
  simplify e = Some e' -> evT rho e = Some v -> evT rho e' = Some v /\ ev rho e' = Some v.
Proof.
  unfold simplify. intros H Hv. pose proof (proj1 (simplify_f_good rho _ _ _ H) v Hv) as G.
  split; [exact G|apply evT_ev; exact G].
Qed.

(* the untyped statement is false of the faithful model: finding F17 *)
Lemma simplify_sound_untyped_refuted :
  exists rho e e' v, simplify e = Some e' /\ ev rho e = Some v /\ ev rho e' <> Some v.
Proof.
  exists (fun _ => 2), (Or [Num (Fin 0%Q); Var "x"%string]), (Var "x"%string), 1.
  split; [vm_compute; reflexivity|]. split.
  - unfold ev. rewrite evg_Or. cbn [evlist_ok evg operand_ok negb orb option_map existsb].
    rewrite Q2R_0, truthyR_0. cbn [orb]. unfold truthyR. destruct (Req_EM_T 2 0); [lra|]. reflexivity.
  - unfold ev; cbn [evg]. intros E; inversion E; lra.
Qed.

(* a division by zero that multiplication by a literal zero rewrites away: finding F3 *)
Lemma div_zero_kept_refuted :
  exists rho e e', simplify e = Some e' /\ ev rho e = None /\ ev rho e' <> None.
Proof.
  exists (fun _ => 0), (BinOp Mul (Num (Fin 0%Q)) (BinOp Div (Var "y"%string) (Num (Fin 0%Q)))), (Num (Fin 0%Q)).
  split; [vm_compute; reflexivity|]. split.
  - unfold ev. rewrite !evg_BinOp. cbn [evg ev_binop]. rewrite Q2R_0.
    destruct (Req_EM_T 0 0); [reflexivity|lra].
  - unfold ev; cbn [evg]. discriminate.
Qed.

Lemma simplify_nonvacuous :
  exists e e', simplify e = Some e' /\ e' <> e /\ evT (fun _ => 1) e = Some 1.
Proof.
  exists (And [Num (Fin 1%Q); BinOp Mul (Num (Fin 1%Q)) (Var "x"%string)]), (Var "x"%string).
  split; [vm_compute; reflexivity|]. split; [discriminate|].
  unfold evT. rewrite evg_And. cbn [evlist_ok]. rewrite evg_Num_Fin, evg_BinOp, evg_Num_Fin, evg_Var.
  cbn [ev_binop]. rewrite Q2R_1. replace (1 * 1) with 1 by lra.
  unfold operand_ok. cbn [negb is_num orb]. replace (is_binR 1) with true.
  2:{ unfold is_binR. destruct (Req_EM_T 1 0); [reflexivity|]. destruct (Req_EM_T 1 1); [reflexivity|lra]. }
  cbn [option_map forallb]. rewrite truthyR_1. reflexivity.
Qed.
