(* C14: one pivot of the simplex tableau keeps the equation system equivalent, the objective row consistent,
   the basic solution non-negative under the ratio test, and never makes the objective worse. *)
From Coq Require Import QArith Qreals Reals ZArith Bool List String Lra Lia.
From Rooc Require Import Base.XQ Model.Exp Model.Bounds Model.Linearize Model.Spec Model.Standardize Model.Tableau
  Proof.XQFacts.
Import ListNotations.
Local Close Scope Q_scope.
Local Open Scope R_scope.
Local Open Scope list_scope.

Definition finx (x : xq) : Prop := xq_is_finite x = true.
Fixpoint dotx (l : list xq) (x : list R) : R :=
  match l, x with
  | c :: cs, v :: vs => xval c * v + dotx cs vs
  | _, _ => 0
  end.

Lemma finx_inv x : finx x -> exists q, x = Fin q.
Proof. destruct x; cbn; try discriminate; eauto. Qed.

Lemma xval_div a b : finx a -> finx b -> xval b <> 0 -> finx (xq_div a b) /\ xval (xq_div a b) = xval a / xval b.
Proof.
  intros Ha Hb Hz. destruct (finx_inv _ Ha) as [p ->]. destruct (finx_inv _ Hb) as [q ->]. cbn in Hz.
  cbn [xq_div]. destruct (q_eqb q 0) eqn:E.
  - apply q_eqb_true in E. rewrite Q2R_0 in E. contradiction.
  - split; [reflexivity|]. cbn. rewrite Q2R_qn, Q2R_div; [reflexivity|].
    intro H. apply Qeq_bool_iff in H. unfold q_eqb in E. congruence.
Qed.
Lemma xval_sub_mul a f b : finx a -> finx f -> finx b ->
  finx (xq_sub a (xq_mul f b)) /\ xval (xq_sub a (xq_mul f b)) = xval a - xval f * xval b.
Proof.
  intros Ha Hf Hb. destruct (finx_inv _ Ha) as [p ->]. destruct (finx_inv _ Hf) as [q ->]. destruct (finx_inv _ Hb) as [r ->].
  split; [reflexivity|]. unfold xq_sub; cbn. rewrite Q2R_qn, Q2R_plus, Q2R_qn, Q2R_opp, Q2R_qn, Q2R_mult. lra.
Qed.

Lemma nthx_fin l i : Forall finx l -> (i < List.length l)%nat -> finx (nthx l i).
Proof.
  unfold nthx. revert i. induction l as [|y l IH]; intros i HF Hi; cbn in Hi; [lia|].
  inversion HF; subst. destruct i; cbn; [assumption|apply IH; [assumption|lia]].
Qed.

(* dot product of an updated row *)
Lemma dotx_row_sub r prow f : forall x, Forall finx r -> Forall finx prow -> finx f ->
  List.length r = List.length x -> List.length prow = List.length x ->
  dotx (row_sub r prow f) x = dotx r x - xval f * dotx prow x.
Proof.
  unfold row_sub. revert prow. induction r as [|a r IH]; intros prow x Hr Hp Hf L1 L2.
  - destruct x; cbn in *; [|discriminate]. destruct prow; cbn in *; [lra|discriminate].
  - destruct x as [|v x]; [discriminate|]. destruct prow as [|p prow]; [discriminate|].
    inversion Hr; subst. inversion Hp; subst. cbn [combine map dotx fst snd].
    destruct (xval_sub_mul a f p) as [_ V]; try assumption. rewrite V.
    rewrite (IH prow x); try assumption; cbn in *; try lia. lra.
Qed.
Lemma row_sub_fin r prow f : Forall finx r -> Forall finx prow -> finx f -> Forall finx (row_sub r prow f).
Proof.
  unfold row_sub. revert prow. induction r as [|a r IH]; intros prow Hr Hp Hf; [constructor|].
  destruct prow as [|p prow]; [constructor|]. inversion Hr; subst. inversion Hp; subst. cbn [combine map fst snd].
  constructor; [apply xval_sub_mul; assumption|apply IH; assumption].
Qed.
Lemma dotx_div prow pv : forall x, Forall finx prow -> finx pv -> xval pv <> 0 ->
  dotx (map (fun c => xq_div c pv) prow) x = dotx prow x / xval pv.
Proof.
  induction prow as [|p prow IH]; intros x Hp Hv Hz; [cbn; field; exact Hz|].
  destruct x as [|v x]; [cbn; field; exact Hz|]. inversion Hp; subst. cbn [map dotx].
  destruct (xval_div p pv) as [_ V]; try assumption. rewrite V, IH; try assumption. field. exact Hz.
Qed.

Lemma mapi_nth_error {A B} (f : nat -> A -> B) (l : list A) i :
  nth_error (mapi f l) i = option_map (f i) (nth_error l i).
Proof.
  unfold mapi.
  assert (G : forall l i s, nth_error (map (fun p => f (fst p) (snd p)) (combine (seq s (List.length l)) l)) i
                           = option_map (f (s + i)%nat) (nth_error l i)).
  { clear. induction l as [|x l IH]; intros i s; cbn; [destruct i; reflexivity|].
    destruct i; cbn; [rewrite Nat.add_0_r; reflexivity|]. rewrite IH. f_equal. f_equal. lia. }
  apply (G l i 0%nat).
Qed.
Lemma mapi_length {A B} (f : nat -> A -> B) l : List.length (mapi f l) = List.length l.
Proof. unfold mapi. rewrite map_length, combine_length, seq_length. lia. Qed.

Lemma nth_error_nthr a i r : nth_error a i = Some r -> nthr a i = r.
Proof. unfold nthr. revert i. induction a; intros [|i] H; cbn in *; try discriminate; [congruence|auto]. Qed.
Lemma nth_error_nthx b i v : nth_error b i = Some v -> nthx b i = v.
Proof. unfold nthx. revert i. induction b; intros [|i] H; cbn in *; try discriminate; [congruence|auto]. Qed.
Lemma nth_error_combine {A B} (l1 : list A) (l2 : list B) i x y :
  nth_error l1 i = Some x -> nth_error l2 i = Some y -> nth_error (combine l1 l2) i = Some (x, y).
Proof.
  revert l2 i. induction l1 as [|a l1 IH]; intros l2 [|i] H1 H2; cbn in *; try discriminate;
    destruct l2; cbn in *; try discriminate; [congruence|auto].
Qed.

Lemma nth_error_combine_inv {A B} (l1 : list A) (l2 : list B) i x y :
  nth_error (combine l1 l2) i = Some (x, y) -> nth_error l1 i = Some x /\ nth_error l2 i = Some y.
Proof.
  revert l2 i. induction l1 as [|a l1 IH]; intros l2 i H; [destruct i; discriminate|].
  destruct l2 as [|b l2]; [destruct i; discriminate|]. destruct i; cbn in *; [inversion H; auto|eauto].
Qed.

(* a well-shaped finite tableau *)
Record twf (t : tableau) (n : nat) : Prop := mkTwf {
  twf_rows : Forall (fun r => Forall finx r /\ List.length r = n) (t_a t);
  twf_b : Forall finx (t_b t);
  twf_c : Forall finx (t_c t) /\ List.length (t_c t) = n;
  twf_len : List.length (t_a t) = List.length (t_b t);
  twf_v : finx (t_value t) }.

Definition sat (t : tableau) (x : list R) : Prop :=
  forall i r bi, nth_error (t_a t) i = Some r -> nth_error (t_b t) i = Some bi -> dotx r x = xval bi.
Definition objective (t : tableau) (x : list R) : R := dotx (t_c t) x - xval (t_value t).

Section P.
  Variables (t : tableau) (n tr h : nat) (x : list R).
  Hypothesis Hwf : twf t n.
  Hypothesis Hx : List.length x = n.
  Variables (prow : list xq) (bt : xq).
  Hypothesis Hprow : nth_error (t_a t) tr = Some prow.
  Hypothesis Hbt : nth_error (t_b t) tr = Some bt.
  Hypothesis Hh : (h < n)%nat.
  Hypothesis Hpv : xval (nthx prow h) <> 0.

  Lemma prow_ok : Forall finx prow /\ List.length prow = n.
  Proof. destruct Hwf as [R _ _ _ _]. rewrite Forall_forall in R. apply R. eapply nth_error_In; eauto. Qed.
  Lemma pv_fin : finx (nthx prow h).
  Proof. destruct prow_ok as [F L]. apply nthx_fin; [exact F|lia]. Qed.
  Lemma bt_fin : finx bt.
  Proof. destruct Hwf as [_ B _ _ _]. rewrite Forall_forall in B. apply B. eapply nth_error_In; eauto. Qed.

  Lemma row_ok i r : nth_error (t_a t) i = Some r -> Forall finx r /\ List.length r = n.
  Proof. intros H. destruct Hwf as [R _ _ _ _]. rewrite Forall_forall in R. apply R. eapply nth_error_In; eauto. Qed.
  Lemma b_ok i bi : nth_error (t_b t) i = Some bi -> finx bi.
  Proof. intros H. destruct Hwf as [_ B _ _ _]. rewrite Forall_forall in B. apply B. eapply nth_error_In; eauto. Qed.

  (* rows of the pivoted tableau *)
  Lemma pivot_row i r bi :
    nth_error (t_a t) i = Some r -> nth_error (t_b t) i = Some bi ->
    exists r' bi', nth_error (t_a (pivot t tr h)) i = Some r' /\ nth_error (t_b (pivot t tr h)) i = Some bi' /\
      (if Nat.eqb i tr
       then dotx r' x = dotx prow x / xval (nthx prow h) /\ xval bi' = xval bt / xval (nthx prow h)
       else dotx r' x = dotx r x - xval (nthx r h) / xval (nthx prow h) * dotx prow x
            /\ xval bi' = xval bi - xval (nthx r h) / xval (nthx prow h) * xval bt).
  Proof.
    intros Hr Hb. unfold pivot. cbn [t_a t_b].
    rewrite (nth_error_nthr _ _ _ Hprow), (nth_error_nthx _ _ _ Hbt).
    rewrite !mapi_nth_error, Hr, (nth_error_combine _ _ _ _ _ Hb Hr). cbn [option_map fst snd].
    destruct prow_ok as [Fp Lp]. pose proof pv_fin as Fv. pose proof bt_fin as Fb.
    destruct (row_ok _ _ Hr) as [Fr Lr]. pose proof (b_ok _ _ Hb) as Fbi.
    destruct (Nat.eqb i tr) eqn:E.
    - eexists; eexists; split; [reflexivity|split; [reflexivity|]]. split.
      + apply dotx_div; assumption.
      + apply (xval_div bt _ Fb Fv Hpv).
    - eexists; eexists; split; [reflexivity|split; [reflexivity|]].
      assert (Fh : finx (nthx r h)) by (apply nthx_fin; [exact Fr|lia]).
      destruct (xval_div (nthx r h) _ Fh Fv Hpv) as [Ff Vf]. split.
      + rewrite dotx_row_sub; try assumption; try lia. rewrite Vf. reflexivity.
      + destruct (xval_sub_mul bi _ bt Fbi Ff Fb) as [_ V]. rewrite V, Vf. reflexivity.
  Qed.

  Lemma pivot_rows_back i r' bi' :
    nth_error (t_a (pivot t tr h)) i = Some r' -> nth_error (t_b (pivot t tr h)) i = Some bi' ->
    exists r bi, nth_error (t_a t) i = Some r /\ nth_error (t_b t) i = Some bi.
  Proof.
    unfold pivot; cbn [t_a t_b]. rewrite !mapi_nth_error. intros H1 H2.
    destruct (nth_error (t_a t) i) as [r|] eqn:Er; [|discriminate].
    destruct (nth_error (t_b t) i) as [bi|] eqn:Eb; [eauto|].
    exfalso. destruct Hwf as [_ _ _ L _]. apply nth_error_None in Eb.
    assert (i < List.length (t_a t))%nat by (apply nth_error_Some; congruence). lia.
  Qed.

  (* the equation system stays equivalent *)
  Theorem pivot_equiv : sat t x <-> sat (pivot t tr h) x.
  Proof.
    split.
    - intros S i r' bi' H1 H2. destruct (pivot_rows_back _ _ _ H1 H2) as [r [bi [Hr Hb]]].
      destruct (pivot_row i r bi Hr Hb) as [r2 [b2 [E1 [E2 P]]]]. rewrite H1 in E1. rewrite H2 in E2.
      inversion E1; inversion E2; subst r2 b2.
      pose proof (S tr prow bt Hprow Hbt) as St. pose proof (S i r bi Hr Hb) as Si.
      destruct (Nat.eqb i tr); destruct P as [P1 P2]; rewrite P1, P2, ?St, ?Si; reflexivity.
    - intros S i r bi Hr Hb.
      destruct (pivot_row tr prow bt Hprow Hbt) as [rt' [bt' [T1 [T2 PT]]]]. rewrite Nat.eqb_refl in PT.
      destruct PT as [PT1 PT2]. pose proof (S tr rt' bt' T1 T2) as St. rewrite PT1, PT2 in St.
      assert (Ht : dotx prow x = xval bt).
      { apply (Rmult_eq_reg_r (/ xval (nthx prow h))); [exact St|]. apply Rinv_neq_0_compat. exact Hpv. }
      destruct (pivot_row i r bi Hr Hb) as [r' [bi' [E1 [E2 P]]]]. pose proof (S i r' bi' E1 E2) as Si.
      destruct (Nat.eqb i tr) eqn:E.
      + apply Nat.eqb_eq in E; subst i. rewrite Hprow in Hr. rewrite Hbt in Hb. inversion Hr; inversion Hb; subst. exact Ht.
      + destruct P as [P1 P2]. rewrite P1, P2, Ht in Si. lra.
  Qed.

  (* the objective row stays consistent: on every solution of the system, c.x - value is unchanged *)
  Theorem pivot_cost : sat t x -> objective (pivot t tr h) x = objective t x.
  Proof.
    intros S. unfold objective, pivot; cbn [t_c t_value].
    rewrite (nth_error_nthr _ _ _ Hprow), (nth_error_nthx _ _ _ Hbt).
    destruct prow_ok as [Fp Lp]. pose proof pv_fin as Fv. pose proof bt_fin as Fb.
    destruct Hwf as [_ _ [Fc Lc] _ Fval].
    assert (Fh : finx (nthx (t_c t) h)) by (apply nthx_fin; [exact Fc|lia]).
    destruct (xval_div _ _ Fh Fv Hpv) as [Ff Vf].
    rewrite dotx_row_sub; try assumption; try lia.
    destruct (xval_sub_mul (t_value t) _ bt Fval Ff Fb) as [_ V]. rewrite V.
    rewrite (S tr prow bt Hprow Hbt). lra.
  Qed.

  (* the objective value of the basic solution (-value) never gets worse when the entering column has a
     negative reduced cost, the pivot is positive and the leaving row's right-hand side is non-negative *)
  Theorem pivot_monotone :
    0 <= xval bt -> 0 < xval (nthx prow h) -> xval (nthx (t_c t) h) <= 0 ->
    - xval (t_value (pivot t tr h)) <= - xval (t_value t).
  Proof.
    intros Hb Hp Hc. unfold pivot; cbn [t_value].
    rewrite (nth_error_nthr _ _ _ Hprow), (nth_error_nthx _ _ _ Hbt).
    pose proof pv_fin as Fv. pose proof bt_fin as Fb. destruct Hwf as [_ _ [Fc Lc] _ Fval].
    assert (Fh : finx (nthx (t_c t) h)) by (apply nthx_fin; [exact Fc|lia]).
    destruct (xval_div _ _ Fh Fv Hpv) as [Ff Vf].
    destruct (xval_sub_mul (t_value t) _ bt Fval Ff Fb) as [_ V]. rewrite V, Vf.
    assert (xval (nthx (t_c t) h) / xval (nthx prow h) * xval bt <= 0).
    { assert (xval (nthx (t_c t) h) / xval (nthx prow h) <= 0).
      { unfold Rdiv. assert (0 < / xval (nthx prow h)) by (apply Rinv_0_lt_compat; exact Hp). nra. }
      nra. }
    lra.
  Qed.

  (* the ratio test keeps the basic solution non-negative *)
  Theorem pivot_feasible :
    0 < xval (nthx prow h) -> 0 <= xval bt ->
    (forall i r bi, nth_error (t_a t) i = Some r -> nth_error (t_b t) i = Some bi ->
       0 <= xval bi /\ (0 < xval (nthx r h) -> xval bt / xval (nthx prow h) <= xval bi / xval (nthx r h))) ->
    forall i bi', nth_error (t_b (pivot t tr h)) i = Some bi' -> 0 <= xval bi'.
  Proof.
    intros Hp Hb Hratio i bi' H.
    assert (exists r', nth_error (t_a (pivot t tr h)) i = Some r') as [r' Hr'].
    { unfold pivot in H; cbn [t_b] in H. rewrite mapi_nth_error in H.
      destruct (nth_error (combine (t_b t) (t_a t)) i) as [[bi r]|] eqn:E; [|discriminate].
      apply nth_error_combine_inv in E as [_ Er].
      unfold pivot; cbn [t_a]. rewrite mapi_nth_error, Er. cbn. eauto. }
    destruct (pivot_rows_back _ _ _ Hr' H) as [r [bi [Hr Hbi]]].
    destruct (pivot_row i r bi Hr Hbi) as [r2 [b2 [E1 [E2 P]]]]. rewrite H in E2. inversion E2; subst b2.
    destruct (Hratio i r bi Hr Hbi) as [Hbi0 Hrat].
    destruct (Nat.eqb i tr).
    - destruct P as [_ ->]. apply Rmult_le_pos; [exact Hb|]. left. apply Rinv_0_lt_compat. exact Hp.
    - destruct P as [_ ->].
      destruct (Rle_or_lt (xval (nthx r h)) 0) as [Hle|Hgt].
      + assert (xval (nthx r h) / xval (nthx prow h) * xval bt <= 0).
        { assert (xval (nthx r h) / xval (nthx prow h) <= 0).
          { unfold Rdiv. assert (0 < / xval (nthx prow h)) by (apply Rinv_0_lt_compat; exact Hp). nra. }
          nra. }
        lra.
      + specialize (Hrat Hgt).
        replace (xval (nthx r h) / xval (nthx prow h) * xval bt) with (xval (nthx r h) * (xval bt / xval (nthx prow h)))
          by (field; lra).
        assert (xval (nthx r h) * (xval bt / xval (nthx prow h)) <= xval (nthx r h) * (xval bi / xval (nthx r h)))
          by (apply Rmult_le_compat_l; lra).
        replace (xval (nthx r h) * (xval bi / xval (nthx r h))) with (xval bi) in H0 by (field; lra). lra.
  Qed.
End P.

(* when the method stops with all reduced costs non-negative, the basic solution is optimal:
   every non-negative solution of the system has an objective at least -value *)
Theorem finished_optimal t n x :
  twf t n -> List.length x = n -> sat t x ->
  Forall (fun c => 0 <= xval c) (t_c t) -> Forall (fun v => 0 <= v) x ->
  - xval (t_value t) <= objective t x.
Proof.
  intros Hwf Hx _ Hc Hxs. unfold objective.
  assert (0 <= dotx (t_c t) x).
  { clear Hwf Hx. revert x Hxs. induction Hc as [|c l Hc0 _ IH]; intros x Hxs; [cbn; lra|].
    destruct x as [|v x]; [cbn; lra|]. inversion Hxs; subst. cbn [dotx]. specialize (IH x H2). nra. }
  lra.
Qed.

(* ---------- well-formedness is preserved, so the step theorems lift to every prefix of every pivot sequence *)
Lemma Forall_nth_error {A} (P : A -> Prop) l : (forall i x, nth_error l i = Some x -> P x) -> Forall P l.
Proof.
  induction l as [|y l IH]; intros H; [constructor|]. constructor.
  - apply (H 0%nat). reflexivity.
  - apply IH. intros i x Hx. apply (H (S i)). exact Hx.
Qed.

Lemma pivot_twf t n tr h prow bt :
  twf t n -> nth_error (t_a t) tr = Some prow -> nth_error (t_b t) tr = Some bt -> (h < n)%nat ->
  xval (nthx prow h) <> 0 -> twf (pivot t tr h) n.
Proof.
  intros Hwf Hprow Hbt Hh Hpv.
  destruct (prow_ok t n tr Hwf prow Hprow) as [Fp Lp].
  assert (Fv : finx (nthx prow h)) by (apply nthx_fin; [exact Fp|lia]). pose proof (bt_fin t n tr Hwf bt Hbt) as Fb.
  destruct Hwf as [R B [Fc Lc] L Fval].
  assert (Hwf : twf t n) by (constructor; auto).
  assert (Fh : finx (nthx (t_c t) h)) by (apply nthx_fin; [exact Fc|lia]).
  destruct (xval_div _ _ Fh Fv Hpv) as [Ff _].
  constructor; unfold pivot; cbn [t_a t_b t_c t_value];
    rewrite ?(nth_error_nthr _ _ _ Hprow), ?(nth_error_nthx _ _ _ Hbt).
  - apply Forall_nth_error. intros i r'. rewrite mapi_nth_error.
    destruct (nth_error (t_a t) i) as [r|] eqn:Er; [|discriminate]. cbn [option_map]. intros H; inversion H; subst r'; clear H.
    destruct (row_ok t n Hwf i r Er) as [Fr Lr]. destruct (Nat.eqb i tr).
    + split; [|rewrite map_length; exact Lp].
      apply Forall_nth_error. intros j y Hy. rewrite nth_error_map in Hy.
      destruct (nth_error prow j) as [p|] eqn:Ep; [|discriminate]. inversion Hy; subst.
      apply xval_div; try assumption. rewrite Forall_forall in Fp. apply Fp. eapply nth_error_In; eauto.
    + assert (Fh' : finx (nthx r h)) by (apply nthx_fin; [exact Fr|lia]).
      destruct (xval_div _ _ Fh' Fv Hpv) as [Ff' _]. split; [apply row_sub_fin; assumption|].
      unfold row_sub. rewrite map_length, combine_length. lia.
  - apply Forall_nth_error. intros i bi'. rewrite mapi_nth_error.
    destruct (nth_error (combine (t_b t) (t_a t)) i) as [[bi r]|] eqn:E; [|discriminate].
    apply nth_error_combine_inv in E as [Eb Er]. cbn [option_map fst snd]. intros H; inversion H; subst bi'; clear H.
    destruct (row_ok t n Hwf i r Er) as [Fr Lr]. pose proof (b_ok t n Hwf i bi Eb) as Fbi. destruct (Nat.eqb i tr).
    + apply xval_div; assumption.
    + assert (Fh' : finx (nthx r h)) by (apply nthx_fin; [exact Fr|lia]).
      destruct (xval_div _ _ Fh' Fv Hpv) as [Ff' _]. apply xval_sub_mul; assumption.
  - split; [apply row_sub_fin; assumption|]. unfold row_sub. rewrite map_length, combine_length. lia.
  - rewrite !mapi_length, combine_length. lia.
  - apply xval_sub_mul; assumption.
Qed.

(* a sequence of pivots (leaving row, entering column), each on a non-zero pivot element inside the tableau *)
Fixpoint pivots_ok (t : tableau) (n : nat) (steps : list (nat * nat)) : Prop :=
  match steps with
  | [] => True
  | (tr, h) :: rest =>
      (exists prow bt, nth_error (t_a t) tr = Some prow /\ nth_error (t_b t) tr = Some bt /\ (h < n)%nat /\ xval (nthx prow h) <> 0)
      /\ pivots_ok (pivot t tr h) n rest
  end.
Definition run_pivots (t : tableau) (steps : list (nat * nat)) : tableau :=
  fold_left (fun t s => pivot t (fst s) (snd s)) steps t.

(* every prefix of every pivot sequence: same solution set, same objective on it *)
Theorem pivots_equiv : forall steps t n x,
  twf t n -> List.length x = n -> pivots_ok t n steps ->
  (sat t x <-> sat (run_pivots t steps) x) /\
  (sat t x -> objective (run_pivots t steps) x = objective t x) /\
  twf (run_pivots t steps) n.
Proof.
  induction steps as [|[tr h] rest IH]; intros t n x Hwf Hx Hok; cbn [run_pivots fold_left fst snd].
  - split; [tauto|]. split; [auto|exact Hwf].
  - destruct Hok as [[prow [bt [Hp [Hb [Hh Hpv]]]]] Hrest].
    pose proof (pivot_twf t n tr h prow bt Hwf Hp Hb Hh Hpv) as Hwf'.
    pose proof (pivot_equiv t n tr h x Hwf Hx prow bt Hp Hb Hh Hpv) as E1.
    destruct (IH (pivot t tr h) n x Hwf' Hx Hrest) as [E2 [O2 W2]].
    split; [rewrite E1; exact E2|]. split; [|exact W2].
    intros S. unfold run_pivots in *. rewrite O2 by (apply E1; exact S).
    apply (pivot_cost t n tr h x Hwf Hx prow bt Hp Hb Hh Hpv S).
Qed.
