(* C08: structural well-formedness of every compiled linear model. *)
From Coq Require Import QArith ZArith NArith Bool List String Lia Sorting.Sorted Sorting.Permutation.
From Rooc Require Import Base.XQ Model.Exp Model.Simplify Model.Flatten Model.Bounds Model.Linearize
  Proof.AListFacts Proof.LinFrame.
Import ListNotations.
Local Close Scope Q_scope.
Local Open Scope string_scope.
Local Open Scope list_scope.

Definition sle (a b : string) : Prop := String.leb a b = true.

Lemma insert_sorted_perm x l : Permutation (x :: l) (insert_sorted x l).
Proof.
  induction l as [|y l IH]; cbn; [apply Permutation_refl|].
  destruct (String.leb x y); [apply Permutation_refl|].
  eapply Permutation_trans; [apply perm_swap|]. apply perm_skip. exact IH.
Qed.
Lemma sort_strings_perm l : Permutation l (sort_strings l).
Proof.
  induction l as [|x l IH]; cbn; [apply Permutation_refl|].
  eapply Permutation_trans; [apply perm_skip; exact IH|apply insert_sorted_perm].
Qed.

Lemma insert_sorted_sorted x l : Sorted sle l -> Sorted sle (insert_sorted x l).
Proof.
  induction l as [|y l IH]; intros S; cbn; [repeat constructor|].
  destruct (String.leb x y) eqn:E.
  - constructor; [exact S|constructor; exact E].
  - inversion S as [|? ? S' H]; subst. constructor; [apply IH; exact S'|].
    assert (Hyx : sle y x) by (destruct (String.leb_total x y) as [T|T]; [congruence|exact T]).
    destruct l as [|z l]; cbn.
    + constructor. exact Hyx.
    + destruct (String.leb x z); constructor; [exact Hyx|]. inversion H; subst. assumption.
Qed.
Lemma sort_strings_sorted l : Sorted sle (sort_strings l).
Proof. induction l as [|x l IH]; cbn; [constructor|apply insert_sorted_sorted; exact IH]. Qed.

Lemma extract_coeffs_length m vars : List.length (extract_coeffs m vars) = List.length vars.
Proof. unfold extract_coeffs. apply map_length. Qed.

Lemma NoDup_map_filter {A B} (f : A -> B) (p : A -> bool) l : NoDup (map f l) -> NoDup (map f (filter p l)).
Proof.
  induction l as [|x l IH]; cbn; intros H; [constructor|]. inversion H; subst.
  destruct (p x); cbn; [constructor|]; auto.
  intros Hin. apply H2. apply in_map_iff in Hin as [y [E Hy]]. apply filter_In in Hy as [Hy _].
  apply in_map_iff. exists y; auto.
Qed.

Lemma set_mem_In s k : set_mem s k = true <-> In k s.
Proof.
  unfold set_mem. rewrite existsb_exists. split.
  - intros [x [Hx E]]. apply String.eqb_eq in E. subst. exact Hx.
  - intros H. exists k; split; [exact H|apply String.eqb_refl].
Qed.

Lemma NoDup_app_disjoint {A} (l1 l2 : list A) x : NoDup (l1 ++ l2) -> In x l2 -> ~ In x l1.
Proof.
  induction l1 as [|y l1 IH]; cbn; intros ND H2 H1; [exact H1|].
  inversion ND as [|? ? Hn ND']; subst. destruct H1 as [->|H1].
  - apply Hn. apply in_or_app. right. exact H2.
  - exact (IH ND' H2 H1).
Qed.

(* the state reached by compile *)
Lemma compile_inv m L :
  compile m = inr L ->
  exists s2 lobj,
    ext (mkS (m_constraints m) [] []
             (map (fun p => (fst p, mkDV (tighten_type (analyze (map (fun p => (fst p, dv_type (snd p))) (m_domain m)) (m_constraints m)) (fst p) (dv_type (snd p))) (dv_used (snd p)))) (m_domain m))
             (sync_with_domain (analyze (map (fun p => (fst p, dv_type (snd p))) (m_domain m)) (m_constraints m))
                (map (fun p => (fst p, dv_type (snd p)))
                   (map (fun p => (fst p, mkDV (tighten_type (analyze (map (fun p => (fst p, dv_type (snd p))) (m_domain m)) (m_constraints m)) (fst p) (dv_type (snd p))) (dv_used (snd p)))) (m_domain m)))))
        s2 /\
    lm_vars L = sort_strings (map fst (filter (fun p => dv_used (snd p)) (s_dom s2))) /\
    lm_domain L = map (fun p => (fst p, dv_type (snd p))) (filter (fun p => set_mem (lm_vars L) (fst p)) (s_dom s2)) /\
    lm_rows L = map (fun r => mkLRow (r_name r) (extract_coeffs (r_lhs r) (lm_vars L)) (r_cmp r) (r_rhs r)) (dedup_names (s_rows s2)) /\
    lm_objective L = extract_coeffs (l_vars lobj) (lm_vars L).
Proof.
  unfold compile. cbv zeta.
  set (an := analyze _ _). set (dom := map _ (m_domain m)). set (an' := sync_with_domain an _).
  set (s0 := mkS _ _ _ dom an').
  destruct (bind (flatten_simplify (m_obj m)) _ s0) as [e|[lobj s1]] eqn:E1; [discriminate|].
  destruct (main_loop _ s1) as [e|[u s2]] eqn:E2; [discriminate|].
  intros H; inversion H; subst L; clear H. exists s2, lobj. cbn [lm_vars lm_domain lm_rows lm_objective].
  split; [|repeat split; reflexivity].
  eapply ext_trans.
  - eapply (pres_bind (flatten_simplify (m_obj m))); [apply pres_flatten_simplify|intro; apply pres_linearize_exp|exact E1].
  - eapply pres_main_loop. exact E2.
Qed.

Theorem compile_wellformed m L :
  compile m = inr L -> NoDup (map fst (m_domain m)) ->
  Sorted sle (lm_vars L)
  /\ NoDup (lm_vars L)
  /\ (forall x, In x (lm_vars L) <-> In x (map fst (lm_domain L)))
  /\ NoDup (map fst (lm_domain L))
  /\ (forall r, In r (lm_rows L) -> List.length (lr_coeffs r) = List.length (lm_vars L))
  /\ List.length (lm_objective L) = List.length (lm_vars L)
  /\ (forall n d, In (n, d) (m_domain m) -> dv_used d = true -> In n (lm_vars L)).
Proof.
  intros HC ND. destruct (compile_inv m L HC) as [s2 [lobj [Hext [Hv [Hd [Hr Ho]]]]]].
  destruct Hext as [[extra Hdom] Hnd _]. cbn [s_dom] in Hdom.
  assert (ND2 : NoDup (keys s2)).
  { apply Hnd. unfold keys; cbn [s_dom]. rewrite map_map. cbn [fst]. exact ND. }
  unfold keys in ND2.
  assert (NDv : NoDup (lm_vars L)).
  { rewrite Hv. eapply Permutation_NoDup; [apply sort_strings_perm|]. apply NoDup_map_filter. exact ND2. }
  split; [rewrite Hv; apply sort_strings_sorted|]. split; [exact NDv|].
  assert (Hkeys : forall x, In x (lm_vars L) <-> In x (map fst (lm_domain L))).
  { intros x. rewrite Hd, map_map. cbn [fst]. split.
    - intros Hx. assert (Hx2 := Hx). rewrite Hv in Hx2.
      apply (Permutation_in _ (Permutation_sym (sort_strings_perm _))) in Hx2.
      apply in_map_iff in Hx2 as [p [E Hp]]. apply filter_In in Hp as [Hp _].
      apply in_map_iff. exists p; split; [exact E|]. apply filter_In. split; [exact Hp|].
      apply set_mem_In. rewrite E. exact Hx.
    - intros Hx. apply in_map_iff in Hx as [p [E Hp]]. apply filter_In in Hp as [_ Hp].
      apply set_mem_In in Hp. rewrite E in Hp. exact Hp. }
  split; [exact Hkeys|]. split.
  { rewrite Hd, map_map. cbn [fst]. apply NoDup_map_filter. exact ND2. }
  split.
  { intros r Hin. rewrite Hr in Hin. apply in_map_iff in Hin as [mr [E _]]. subst r. cbn. apply extract_coeffs_length. }
  split; [rewrite Ho; apply extract_coeffs_length|].
  intros n d Hin Hu. rewrite Hv. apply (Permutation_in _ (sort_strings_perm _)).
  apply in_map_iff. exists (n, mkDV (tighten_type (analyze (map (fun p => (fst p, dv_type (snd p))) (m_domain m)) (m_constraints m)) n (dv_type d)) (dv_used d)).
  split; [reflexivity|]. apply filter_In. split; [|exact Hu].
  rewrite Hdom. apply in_or_app. left. apply in_map_iff. exists (n, d). split; [reflexivity|exact Hin].
Qed.

(* auxiliary variables never collide with a declared name: the final domain is duplicate-free and begins
   with the declared names *)
Theorem compile_aux_fresh m L :
  compile m = inr L -> NoDup (map fst (m_domain m)) ->
  exists aux : list (string * vtype),
    (forall x, In x (map fst (lm_domain L)) -> In x (map fst (m_domain m)) \/ In x (map fst aux)) /\
    (forall x, In x (map fst aux) -> ~ In x (map fst (m_domain m))).
Proof.
  intros HC ND. destruct (compile_inv m L HC) as [s2 [lobj [Hext [Hv [Hd [Hr Ho]]]]]].
  destruct Hext as [[extra Hdom] Hnd _]. cbn [s_dom] in Hdom.
  assert (ND2 : NoDup (keys s2)).
  { apply Hnd. unfold keys; cbn [s_dom]. rewrite map_map. cbn [fst]. exact ND. }
  unfold keys in ND2. rewrite Hdom, map_app, map_map in ND2. cbn [fst] in ND2.
  exists (map (fun p => (fst p, dv_type (snd p))) extra). rewrite map_map. cbn [fst]. split.
  - intros x Hx. rewrite Hd, map_map in Hx. cbn [fst] in Hx.
    apply in_map_iff in Hx as [p [E Hp]]. apply filter_In in Hp as [Hp _]. rewrite Hdom in Hp.
    apply in_app_or in Hp as [Hp|Hp].
    + left. apply in_map_iff in Hp as [q [Eq Hq]]. subst p. cbn in E. subst x. apply in_map. exact Hq.
    + right. subst x. apply in_map. exact Hp.
  - intros x Hx Hx'. eapply NoDup_app_disjoint; [exact ND2|exact Hx|]. rewrite <- map_map with (f := fun p => p) (g := fst) in Hx'. rewrite map_id in Hx'. exact Hx'.
Qed.
