(* Unfolding lemmas for the semantics: the nested fixpoints are exposed as top-level list functions. *)
From Coq Require Import QArith Qreals Reals ZArith Bool List String Lra.
From Rooc Require Import Base.XQ Model.Exp Model.Sem Proof.XQFacts.
Import ListNotations.
Local Close Scope Q_scope.
Local Open Scope R_scope.
Local Open Scope list_scope.

Section S.
  Variable rho : string -> R.
  Variable t : bool.
  Notation evg := (evg rho t).

  Fixpoint evlist (l : list exp) : option (list R) :=
    match l with
    | [] => Some []
    | x :: xs => match evg x, evlist xs with Some v, Some vs => Some (v :: vs) | _, _ => None end
    end.
  Fixpoint evlist_ok (l : list exp) : option (list R) :=
    match l with
    | [] => Some []
    | x :: xs => match evg x, evlist_ok xs with
                 | Some v, Some vs => if operand_ok t x v then Some (v :: vs) else None
                 | _, _ => None end
    end.

  Lemma evg_Min l : evg (Min l) = match evlist l with Some vs => fold_min vs | None => None end.
  Proof.
    cbn [Sem.evg]. match goal with |- match ?f l with _ => _ end = _ => assert (H : forall k, f k = evlist k) end.
    { induction k as [|x xs IH]; [reflexivity|]. cbn [evlist]. rewrite <- IH. reflexivity. }
    rewrite H. reflexivity.
  Qed.
  Lemma evg_Max l : evg (Max l) = match evlist l with Some vs => fold_max vs | None => None end.
  Proof.
    cbn [Sem.evg]. match goal with |- match ?f l with _ => _ end = _ => assert (H : forall k, f k = evlist k) end.
    { induction k as [|x xs IH]; [reflexivity|]. cbn [evlist]. rewrite <- IH. reflexivity. }
    rewrite H. reflexivity.
  Qed.
  Lemma evg_And l : evg (And l) = option_map (fun vs => bnR (forallb truthyR vs)) (evlist_ok l).
  Proof.
    cbn [Sem.evg]. match goal with |- option_map _ (?f l) = _ => assert (H : forall k, f k = evlist_ok k) end.
    { induction k as [|x xs IH]; [reflexivity|]. cbn [evlist_ok]. rewrite <- IH. reflexivity. }
    rewrite H. reflexivity.
  Qed.
  Lemma evg_Or l : evg (Or l) = option_map (fun vs => bnR (existsb truthyR vs)) (evlist_ok l).
  Proof.
    cbn [Sem.evg]. match goal with |- option_map _ (?f l) = _ => assert (H : forall k, f k = evlist_ok k) end.
    { induction k as [|x xs IH]; [reflexivity|]. cbn [evlist_ok]. rewrite <- IH. reflexivity. }
    rewrite H. reflexivity.
  Qed.

  Lemma evg_Num_Fin q : evg (Num (Fin q)) = Some (Q2R q).  Proof. reflexivity. Qed.
  Lemma evg_Var s : evg (Var s) = Some (rho s).  Proof. reflexivity. Qed.
  Lemma evg_Abs x : evg (Abs x) = option_map Rabs (evg x).  Proof. reflexivity. Qed.
  Lemma evg_Not x : evg (Not x) = option_map (fun v => bnR (negb (truthyR v))) (evg x).  Proof. reflexivity. Qed.
  Lemma evg_Neg x : evg (UnOp Neg x) = option_map Ropp (evg x).  Proof. reflexivity. Qed.
  Lemma evg_UNot x : evg (UnOp UNot x) = option_map (fun v => bnR (negb (truthyR v))) (evg x).  Proof. reflexivity. Qed.
  Lemma evg_Xor a b : evg (Xor a b) = match evg a, evg b with Some x, Some y => Some (bnR (xorb (truthyR x) (truthyR y))) | _, _ => None end.
  Proof. reflexivity. Qed.
  Lemma evg_Implies a b : evg (Implies a b) = match evg a, evg b with Some x, Some y => Some (bnR (negb (truthyR x) || truthyR y)) | _, _ => None end.
  Proof. reflexivity. Qed.
  Lemma evg_Iff a b : evg (Iff a b) = match evg a, evg b with Some x, Some y => Some (bnR (Bool.eqb (truthyR x) (truthyR y))) | _, _ => None end.
  Proof. reflexivity. Qed.
  Lemma evg_BinOp op a b : evg (BinOp op a b) =
    match evg a, evg b with
    | Some x, Some y =>
        match op with
        | BAnd | BOr => if operand_ok t a x && operand_ok t b y then ev_binop op x y else None
        | _ => ev_binop op x y
        end
    | _, _ => None
    end.
  Proof. reflexivity. Qed.

  Lemma evg_Num_inv x v : evg (Num x) = Some v -> exists q, x = Fin q /\ v = Q2R q.
  Proof. destruct x; cbn; intros H; try discriminate. inversion H; eauto. Qed.

  Lemma evlist_app l1 l2 :
    evlist (l1 ++ l2) = match evlist l1, evlist l2 with Some a, Some b => Some (a ++ b) | _, _ => None end.
  Proof.
    induction l1 as [|x xs IH]; cbn [evlist app].
    - destruct (evlist l2); reflexivity.
    - rewrite IH. destruct (evg x); [|reflexivity]. destruct (evlist xs); [|reflexivity].
      destruct (evlist l2); reflexivity.
  Qed.
  Lemma evlist_ok_app l1 l2 :
    evlist_ok (l1 ++ l2) = match evlist_ok l1, evlist_ok l2 with Some a, Some b => Some (a ++ b) | _, _ => None end.
  Proof.
    induction l1 as [|x xs IH]; cbn [evlist_ok app].
    - destruct (evlist_ok l2); reflexivity.
    - rewrite IH. destruct (evg x) as [v|]; [|reflexivity]. destruct (evlist_ok xs); [|reflexivity].
      destruct (evlist_ok l2); [|destruct (operand_ok t x v); reflexivity].
      destruct (operand_ok t x v); reflexivity.
  Qed.
End S.

Lemma as_num_Some e x : as_num e = Some x -> e = Num x.
Proof. destruct e; cbn; intros H; try discriminate. congruence. Qed.
Lemma as_num_None e : as_num e = None -> is_num e = false.
Proof. destruct e; cbn; intros H; try discriminate; reflexivity. Qed.

Lemma truthyR_0 : truthyR 0 = false.
Proof. unfold truthyR. destruct (Req_EM_T 0 0); [reflexivity|lra]. Qed.
Lemma truthyR_1 : truthyR 1 = true.
Proof. unfold truthyR. destruct (Req_EM_T 1 0); [lra|reflexivity]. Qed.
Lemma truthyR_bnR b : truthyR (bnR b) = b.
Proof. destruct b; [apply truthyR_1|apply truthyR_0]. Qed.
Lemma truthyR_false x : truthyR x = false -> x = 0.
Proof. unfold truthyR. destruct (Req_EM_T x 0); [auto|discriminate]. Qed.
Lemma truthyR_true x : truthyR x = true -> x <> 0.
Proof. unfold truthyR. destruct (Req_EM_T x 0); [discriminate|auto]. Qed.
Lemma is_binR_spec x : is_binR x = true -> x = bnR (truthyR x).
Proof.
  unfold is_binR. destruct (Req_EM_T x 0) as [E|N].
  - intros _. subst. rewrite truthyR_0. reflexivity.
  - destruct (Req_EM_T x 1) as [E|N1]; [|discriminate]. intros _. subst. rewrite truthyR_1. reflexivity.
Qed.
Lemma is_binR_bnR b : is_binR (bnR b) = true.
Proof.
  unfold is_binR. destruct b; cbn [bnR].
  - destruct (Req_EM_T 1 0); [reflexivity|]. destruct (Req_EM_T 1 1); [reflexivity|lra].
  - destruct (Req_EM_T 0 0); [reflexivity|lra].
Qed.
Lemma truthyR_Q2R q : truthyR (Q2R q) = negb (xq_is_zero (Fin q)).
Proof.
  destruct (xq_is_zero (Fin q)) eqn:E.
  - apply xq_is_zero_Fin in E. rewrite E. apply truthyR_0.
  - apply xq_is_zero_Fin_false in E. unfold truthyR. destruct (Req_EM_T (Q2R q) 0); [contradiction|reflexivity].
Qed.
