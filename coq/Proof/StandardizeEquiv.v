(* C13: end-to-end meaning of to_standard_form.  Assignments are by NAME (Spec.dot): a point of the standard form
   maps back to a point of the linear model by reading a free variable v as $p v - $m v. *)
From Coq Require Import QArith Qreals Reals ZArith Bool List String Lra Lia.
From Rooc Require Import Base.XQ Model.Exp Model.Bounds Model.Linearize Model.Spec Model.Standardize
  Proof.XQFacts Proof.PivotSound Proof.StandardizeSound.
Import ListNotations.
Local Close Scope Q_scope.
Local Open Scope R_scope.
Local Open Scope list_scope.

(* ---------- dot over names: basic algebra *)
Lemma dot_nil_l vs s : dot [] vs s = 0.  Proof. reflexivity. Qed.
Lemma dot_nil_r cs s : dot cs [] s = 0.  Proof. destruct cs; reflexivity. Qed.
Lemma dot_app cs ds vs ws s : List.length cs = List.length vs -> dot (cs ++ ds) (vs ++ ws) s = dot cs vs s + dot ds ws s.
Proof.
  revert vs; induction cs as [|c cs IH]; intros vs L; destruct vs as [|v vs]; try discriminate L; cbn [app dot]; [lra|].
  rewrite IH by (cbn in L; lia). lra.
Qed.
(* names beyond the coefficients do not matter *)
Lemma dot_names_app cs vs ws s : (List.length cs <= List.length vs)%nat -> dot cs (vs ++ ws) s = dot cs vs s.
Proof.
  revert vs; induction cs as [|c cs IH]; intros vs L; [reflexivity|]. destruct vs as [|v vs]; [cbn in L; lia|].
  cbn [app dot]. rewrite IH by (cbn in L; lia). reflexivity.
Qed.
Lemma dot_zeros k vs s : dot (repeat (Fin 0%Q) k) vs s = 0.
Proof. revert vs; induction k as [|k IH]; intros vs; [reflexivity|]. destruct vs as [|v vs]; [reflexivity|]. cbn [repeat dot xval]. rewrite IH, Q2R_0. lra. Qed.
Lemma dot_coeffs_zeros cs k vs s : dot (cs ++ repeat (Fin 0%Q) k) vs s = dot cs vs s.
Proof.
  revert vs; induction cs as [|c cs IH]; intros vs; cbn [app]; [rewrite dot_zeros; reflexivity|].
  destruct vs as [|v vs]; [reflexivity|]. cbn [dot]. rewrite IH. reflexivity.
Qed.
(* resize never changes the value as long as nothing is cut off *)
Lemma dot_resize cs n vs s : (List.length cs <= n)%nat -> dot (resize cs n) vs s = dot cs vs s.
Proof. intros L. unfold resize. rewrite firstn_all2 by exact L. apply dot_coeffs_zeros. Qed.
Lemma dot_neg cs vs s : Forall finx cs -> dot (map (fun c => xq_mul c (Fin (-1)%Q)) cs) vs s = - dot cs vs s.
Proof.
  revert vs; induction cs as [|c cs IH]; intros vs Hf; [cbn; lra|]. destruct vs as [|v vs]; [cbn; lra|].
  inversion Hf; subst. destruct (finx_inv _ H1) as [q ->]. cbn [map dot xq_mul xval].
  rewrite IH by assumption. rewrite Q2R_qn, Q2R_mult. replace (Q2R (-1)) with (-1) by (unfold Q2R; cbn; lra). lra.
Qed.
(* two assignments that agree on the names used give the same value *)
Lemma dot_ext cs vs s t : (forall v, In v vs -> s v = t v) -> dot cs vs s = dot cs vs t.
Proof.
  revert vs; induction cs as [|c cs IH]; intros vs H; [reflexivity|]. destruct vs as [|v vs]; [reflexivity|].
  cbn [dot]. rewrite (H v (or_introl eq_refl)). rewrite IH; [reflexivity|]. intros w Hw. apply H. right. exact Hw.
Qed.

(* EqualityConstraint::new over names *)
Lemma eq_new_dot cs rhs vs s :
  Forall finx cs -> finx rhs ->
  0 <= xval (eq_rhs (eq_new cs rhs)) /\
  (dot (eq_coeffs (eq_new cs rhs)) vs s = xval (eq_rhs (eq_new cs rhs)) <-> dot cs vs s = xval rhs).
Proof.
  intros Hc Hr. destruct (finx_inv _ Hr) as [q ->]. unfold eq_new.
  destruct (xq_ltb (Fin q) (Fin 0%Q)) eqn:L; cbn [eq_coeffs eq_rhs].
  - cbn in L. apply q_ltb_true in L. rewrite Q2R_0 in L. cbn [xq_neg xval]. rewrite Q2R_qn, Q2R_opp.
    split; [lra|]. rewrite dot_neg by assumption. cbn. lra.
  - cbn in L. apply q_ltb_false in L. rewrite Q2R_0 in L. cbn. split; [lra|tauto].
Qed.

(* ---------- the column surgery of to_standard_form *)
(* fold_left (fun acc i => acc ++ f i) is an append of a flat_map *)
Lemma fold_append {A B} (f : B -> list A) : forall (l : list B) (acc : list A),
  fold_left (fun a i => a ++ f i) l acc = acc ++ flat_map f l.
Proof. induction l as [|x l IH]; intros acc; cbn [fold_left flat_map]; [rewrite app_nil_r; reflexivity|]. rewrite IH, app_assoc. reflexivity. Qed.

(* remove_many with an explicit start index *)
Definition remove_from {A} (k : nat) (l : list A) (idx : list nat) : list A :=
  map snd (filter (fun p => negb (existsb (Nat.eqb (fst p)) idx)) (combine (seq k (List.length l)) l)).
Lemma remove_many_from {A} (l : list A) idx : remove_many l idx = remove_from 0 l idx.
Proof. reflexivity. Qed.
Lemma remove_from_cons {A} k (x : A) l idx :
  remove_from k (x :: l) idx = (if existsb (Nat.eqb k) idx then [] else [x]) ++ remove_from (S k) l idx.
Proof. unfold remove_from. cbn [List.length seq combine filter fst]. destruct (existsb (Nat.eqb k) idx); reflexivity. Qed.
Lemma remove_from_app {A} : forall (l e : list A) k idx,
  (forall i, In i idx -> (i < k + List.length l)%nat) ->
  remove_from k (l ++ e) idx = remove_from k l idx ++ e.
Proof.
  induction l as [|x l IH]; intros e k idx H.
  - cbn [app]. unfold remove_from at 2. cbn. 
    assert (G : forall (e : list A) k, (forall i, In i idx -> (i < k)%nat) -> remove_from k e idx = e).
    { clear. induction e as [|y e IHe]; intros k H; [reflexivity|]. rewrite remove_from_cons.
      assert (E : existsb (Nat.eqb k) idx = false).
      { apply Bool.not_true_is_false. intros T. apply existsb_exists in T as [i [Hi Ei]]. apply Nat.eqb_eq in Ei. subst i. specialize (H k Hi). lia. }
      rewrite E. cbn [app]. f_equal. apply IHe. intros i Hi. specialize (H i Hi). lia. }
    apply G. intros i Hi. specialize (H i Hi). cbn in H. lia.
  - cbn [app]. rewrite !remove_from_cons. rewrite <- app_assoc. f_equal. apply IH. intros i Hi. specialize (H i Hi). cbn in H. lia.
Qed.

Section Back.
  Variable vars : list string.        (* the linear model's variables, in column order *)
  Variable free : list nat.           (* the indices of the free (Real) variables *)
  Variable tau : string -> R.         (* a point of the standard form, by name *)
  Definition pname (v : string) : string := String.append "$p" v.
  Definition mname (v : string) : string := String.append "$m" v.
  Definition is_free_idx (i : nat) : bool := existsb (Nat.eqb i) free.
  (* the point of the linear model it stands for *)
  Definition back_at (i : nat) (v : string) : R := if is_free_idx i then tau (pname v) - tau (mname v) else tau v.

  (* value of a coefficient list against the ORIGINAL columns, reading free ones through their two halves *)
  Fixpoint dot_back (k : nat) (cs : list xq) (vs : list string) : R :=
    match cs, vs with
    | c :: cs', v :: vs' => xval c * back_at k v + dot_back (S k) cs' vs'
    | _, _ => 0
    end.
  Fixpoint dot_freepart (k : nat) (cs : list xq) (vs : list string) : R :=
    match cs, vs with
    | c :: cs', v :: vs' => (if is_free_idx k then xval c * (tau (pname v) - tau (mname v)) else 0) + dot_freepart (S k) cs' vs'
    | _, _ => 0
    end.

  (* what survives remove_many, plus the free part, is the value at the back-mapped point *)
  Lemma removed_plus_free : forall cs vs k, List.length cs = List.length vs ->
    dot (remove_from k cs free) (remove_from k vs free) tau + dot_freepart k cs vs = dot_back k cs vs.
  Proof.
    induction cs as [|c cs IH]; intros vs k L; destruct vs as [|v vs]; try discriminate L; [cbn; lra|].
    rewrite !remove_from_cons. cbn [dot_freepart dot_back]. unfold back_at, is_free_idx.
    destruct (existsb (Nat.eqb k) free); cbn [app dot].
    - rewrite <- (IH vs (S k)) by (cbn in L; lia). lra.
    - rewrite <- (IH vs (S k)) by (cbn in L; lia). lra.
  Qed.
End Back.

(* ---------- the appended halves of the free variables *)
Section Halves.
  Variable P : nat -> bool.            (* which column index is free *)
  Variable tau : string -> R.

  Definition halves_c (k : nat) (cs : list xq) : list xq :=
    flat_map (fun i => let c := nth (i - k) cs NaN in [c; xq_neg c]) (filter P (seq k (List.length cs))).
  Definition halves_n (k : nat) (vs : list string) : list string :=
    flat_map (fun i => let v := nth (i - k) vs ""%string in [pname v; mname v]) (filter P (seq k (List.length vs))).
  Fixpoint freepart (k : nat) (cs : list xq) (vs : list string) : R :=
    match cs, vs with
    | c :: cs', v :: vs' => (if P k then xval c * (tau (pname v) - tau (mname v)) else 0) + freepart (S k) cs' vs'
    | _, _ => 0
    end.

  Lemma flat_map_shift {A} (f g : nat -> list A) l : (forall i, In i l -> f i = g i) -> flat_map f l = flat_map g l.
  Proof. induction l as [|x l IH]; intros H; [reflexivity|]. cbn [flat_map]. rewrite (H x (or_introl eq_refl)), IH; [reflexivity|]. intros i Hi. apply H. right. exact Hi. Qed.

  Lemma halves_c_cons k c cs :
    halves_c k (c :: cs) = (if P k then [c; xq_neg c] else []) ++ halves_c (S k) cs.
  Proof.
    unfold halves_c. cbn [List.length seq filter].
    assert (E : flat_map (fun i => let c0 := nth (i - k) (c :: cs) NaN in [c0; xq_neg c0]) (filter P (seq (S k) (List.length cs)))
              = flat_map (fun i => let c0 := nth (i - S k) cs NaN in [c0; xq_neg c0]) (filter P (seq (S k) (List.length cs)))).
    { apply flat_map_shift. intros i Hi. apply filter_In in Hi as [Hi _]. apply in_seq in Hi.
      replace (i - k)%nat with (S (i - S k)) by lia. reflexivity. }
    cbv zeta in *. destruct (P k).
    - cbn [flat_map]. rewrite E, Nat.sub_diag. reflexivity.
    - rewrite E. reflexivity.
  Qed.
  Lemma halves_n_cons k v vs :
    halves_n k (v :: vs) = (if P k then [pname v; mname v] else []) ++ halves_n (S k) vs.
  Proof.
    unfold halves_n. cbn [List.length seq filter].
    assert (E : flat_map (fun i => let v0 := nth (i - k) (v :: vs) ""%string in [pname v0; mname v0]) (filter P (seq (S k) (List.length vs)))
              = flat_map (fun i => let v0 := nth (i - S k) vs ""%string in [pname v0; mname v0]) (filter P (seq (S k) (List.length vs)))).
    { apply flat_map_shift. intros i Hi. apply filter_In in Hi as [Hi _]. apply in_seq in Hi.
      replace (i - k)%nat with (S (i - S k)) by lia. reflexivity. }
    cbv zeta in *. destruct (P k).
    - cbn [flat_map]. rewrite E, Nat.sub_diag. reflexivity.
    - rewrite E. reflexivity.
  Qed.

  Lemma halves_value : forall cs vs k, List.length cs = List.length vs -> Forall finx cs ->
    dot (halves_c k cs) (halves_n k vs) tau = freepart k cs vs.
  Proof.
    induction cs as [|c cs IH]; intros vs k L F; destruct vs as [|v vs]; try discriminate L; [reflexivity|].
    rewrite halves_c_cons, halves_n_cons. cbn [freepart]. inversion F as [|? ? Fc Fcs]; subst.
    destruct (P k); cbn [app dot].
    - rewrite IH by (cbn in L; try lia; assumption). destruct (finx_inv _ Fc) as [q ->]. cbn [xq_neg xval]. rewrite Q2R_qn, Q2R_opp. lra.
    - rewrite IH by (cbn in L; try lia; assumption). lra.
  Qed.
  Lemma halves_len k cs vs : List.length cs = List.length vs -> List.length (halves_c k cs) = List.length (halves_n k vs).
  Proof.
    revert vs k; induction cs as [|c cs IH]; intros vs k L; destruct vs as [|v vs]; try discriminate L; [reflexivity|].
    rewrite halves_c_cons, halves_n_cons, !app_length. rewrite (IH vs (S k)) by (cbn in L; lia). destruct (P k); reflexivity.
  Qed.
End Halves.

(* ---------- one coefficient list through the free-variable surgery *)
Section RowSurgery.
  Variable vars : list string.
  Variable P : nat -> bool.
  Variable tau : string -> R.
  Let n := List.length vars.
  Let free := filter P (seq 0 n).

  Lemma free_lt i : In i free -> (i < 0 + n)%nat.
  Proof. unfold free. intros H. apply filter_In in H as [H _]. apply in_seq in H. lia. Qed.
  Lemma is_free_spec k : (k < n)%nat -> is_free_idx free k = P k.
  Proof.
    intros L. unfold is_free_idx, free. destruct (P k) eqn:E.
    - apply existsb_exists. exists k. split; [apply filter_In; split; [apply in_seq; lia|exact E]|apply Nat.eqb_refl].
    - apply Bool.not_true_is_false. intros T. apply existsb_exists in T as [i [Hi Ei]]. apply Nat.eqb_eq in Ei. subst i.
      apply filter_In in Hi as [_ Hi]. congruence.
  Qed.
  Lemma freeparts_agree : forall cs vs k, (k + List.length cs <= n)%nat ->
    dot_freepart free tau k cs vs = freepart P tau k cs vs.
  Proof.
    induction cs as [|c cs IH]; intros vs k L; [reflexivity|]. destruct vs as [|v vs]; [reflexivity|].
    cbn [dot_freepart freepart]. cbn in L. rewrite is_free_spec by lia. rewrite IH by lia. reflexivity.
  Qed.
  Lemma remove_from_len {A B} : forall (l : list A) (m : list B) k idx, List.length l = List.length m ->
    List.length (remove_from k l idx) = List.length (remove_from k m idx).
  Proof.
    induction l as [|x l IH]; intros m k idx L; destruct m as [|y m]; try discriminate L; [reflexivity|].
    rewrite !remove_from_cons, !app_length. rewrite (IH m (S k) idx) by (cbn in L; lia). destruct (existsb (Nat.eqb k) idx); reflexivity.
  Qed.

  Definition ext_c (cs : list xq) : list xq := fold_left (fun acc i => let c := nth i cs NaN in acc ++ [c; xq_neg c]) free cs.
  Definition ext_n : list string := fold_left (fun acc i => let v := nth i vars ""%string in acc ++ [pname v; mname v]) free vars.
  Lemma ext_c_eq cs : List.length cs = n -> ext_c cs = cs ++ halves_c P 0 cs.
  Proof.
    intros L. unfold ext_c. rewrite (fold_append (fun i => let c := nth i cs NaN in [c; xq_neg c])).
    f_equal. unfold halves_c, free. rewrite L. apply flat_map_shift. intros i _. rewrite Nat.sub_0_r. reflexivity.
  Qed.
  Lemma ext_n_eq : ext_n = vars ++ halves_n P 0 vars.
  Proof.
    unfold ext_n. rewrite (fold_append (fun i => let v := nth i vars ""%string in [pname v; mname v])).
    f_equal. unfold halves_n, free. apply flat_map_shift. intros i _. rewrite Nat.sub_0_r. reflexivity.
  Qed.

  (* the surgery on one coefficient list: its value at tau over the new names is its value at the back-mapped point *)
  Theorem surgery_value cs : List.length cs = n -> Forall finx cs ->
    dot (remove_many (ext_c cs) free) (remove_many ext_n free) tau = dot_back free tau 0 cs vars.
  Proof.
    intros L F. rewrite ext_c_eq by exact L. rewrite ext_n_eq. rewrite !remove_many_from.
    rewrite remove_from_app by (intros i Hi; rewrite L; apply free_lt; exact Hi).
    rewrite remove_from_app by (intros i Hi; apply free_lt; exact Hi).
    rewrite dot_app by (apply remove_from_len; exact L).
    rewrite (halves_value P tau cs vars 0 L F).
    rewrite <- (freeparts_agree cs vars 0) by lia.
    apply removed_plus_free. exact L.
  Qed.
End RowSurgery.

(* ---------- slack and surplus columns: normalize_all *)
Lemma resize_length l k : List.length (resize l k) = k.
Proof.
  unfold resize. rewrite app_length, firstn_length, repeat_length. lia.
Qed.
Lemma Forall_firstn' {A} (Q : A -> Prop) : forall k (l : list A), Forall Q l -> Forall Q (firstn k l).
Proof. induction k as [|k IH]; intros l F; [constructor|]. destruct l; [constructor|]. inversion F; subst. cbn [firstn]. constructor; auto. Qed.
Lemma Forall_finx_resize l k : Forall finx l -> Forall finx (resize l k).
Proof.
  intros F. unfold resize. apply Forall_app. split.
  - apply Forall_firstn'. exact F.
  - apply Forall_forall. intros x Hx. apply repeat_spec in Hx. subst x. reflexivity.
Qed.

(* what one standard-form equation says about the row it came from, over the FINAL list of names *)
Definition row_spec (names : list string) (r : lrow) (e : eqcon) : Prop :=
  0 <= xval (eq_rhs e) /\ (List.length (eq_coeffs e) <= List.length names)%nat /\
  forall tau, dot (eq_coeffs e) names tau = xval (eq_rhs e) -> (forall v, In v names -> 0 <= tau v) ->
    cmp_holds (lr_cmp r) (dot (lr_coeffs r) names tau) (xval (lr_rhs r)).

Definition row_ok (base : nat) (r : lrow) : Prop :=
  List.length (lr_coeffs r) = base /\ Forall finx (lr_coeffs r) /\ finx (lr_rhs r).

Lemma row_spec_more names more r e : row_spec names r e -> (List.length (lr_coeffs r) <= List.length names)%nat ->
  row_spec (names ++ more) r e.
Proof.
  intros [H0 [HL H]] Lr. split; [exact H0|]. split; [rewrite app_length; lia|].
  intros tau E N. rewrite dot_names_app in E by exact HL. rewrite dot_names_app by exact Lr.
  apply H; [exact E|]. intros v Hv. apply N. apply in_or_app. left. exact Hv.
Qed.

Lemma normalize_all_spec : forall rows su sl vs acc eqs vs' tot' base,
  (base <= List.length vs)%nat -> Forall (row_ok base) rows ->
  normalize_all rows (su, sl, List.length vs) vs acc = inr (eqs, vs', tot') ->
  exists news added, eqs = acc ++ news /\ vs' = vs ++ added /\ tot' = List.length vs' /\ Forall2 (row_spec vs') rows news.
Proof.
  induction rows as [|r rows IH]; intros su sl vs acc eqs vs' tot' base Lb Hok H; cbn [normalize_all] in H.
  - inversion H; subst. exists [], []. rewrite !app_nil_r. repeat split; constructor.
  - inversion Hok as [|? ? [Lr [Fc Fr]] Hok']; subst.
    unfold normalize_row in H. destruct (lr_cmp r) eqn:C; try discriminate H.
    + (* Le: slack *)
      set (e := eq_new (resize (lr_coeffs r) (List.length vs) ++ [Fin 1%Q]) (lr_rhs r)) in *.
      set (s := String.append "$sl_" (n_to_string (N.of_nat (S sl)))) in *.
      replace (S (List.length vs)) with (List.length (vs ++ [s])) in H by (rewrite app_length; cbn; lia).
      destruct (IH su (S sl) (vs ++ [s]) (acc ++ [e]) eqs vs' tot' (List.length (lr_coeffs r))) as [news [added [E1 [E2 [E3 F2]]]]];
        [rewrite app_length; lia|exact Hok'|exact H|].
      exists (e :: news), (s :: added). rewrite <- app_assoc in E1, E2. cbn [app] in E1, E2.
      split; [exact E1|]. split; [exact E2|]. split; [exact E3|]. constructor; [|exact F2].
      assert (Ff : Forall finx (resize (lr_coeffs r) (List.length vs) ++ [Fin 1%Q])).
      { apply Forall_app. split; [apply Forall_finx_resize; exact Fc|constructor; [reflexivity|constructor]]. }
      destruct (eq_new_dot _ (lr_rhs r) vs' (fun _ => 0) Ff Fr) as [R0 _].
      split; [exact R0|]. split.
      { unfold e, eq_new. destruct (xq_ltb _ _); cbn [eq_coeffs]; rewrite ?map_length, app_length, resize_length, E2, app_length; cbn; lia. }
      intros tau Eq N. destruct (eq_new_dot _ (lr_rhs r) vs' tau Ff Fr) as [_ I]. apply I in Eq. clear I.
      rewrite E2 in Eq. rewrite dot_app in Eq by (rewrite resize_length; reflexivity).
      rewrite dot_resize in Eq by lia. cbn [dot xval] in Eq. rewrite Q2R_1 in Eq.
      rewrite C. cbn [cmp_holds]. rewrite E2, dot_names_app by lia.
      assert (0 <= tau s) by (apply N; rewrite E2; apply in_or_app; right; left; reflexivity). lra.
    + (* Ge: surplus *)
      set (e := eq_new (resize (lr_coeffs r) (List.length vs) ++ [Fin (-1)%Q]) (lr_rhs r)) in *.
      set (s := String.append "$su_" (n_to_string (N.of_nat (S su)))) in *.
      replace (S (List.length vs)) with (List.length (vs ++ [s])) in H by (rewrite app_length; cbn; lia).
      destruct (IH (S su) sl (vs ++ [s]) (acc ++ [e]) eqs vs' tot' (List.length (lr_coeffs r))) as [news [added [E1 [E2 [E3 F2]]]]];
        [rewrite app_length; lia|exact Hok'|exact H|].
      exists (e :: news), (s :: added). rewrite <- app_assoc in E1, E2. cbn [app] in E1, E2.
      split; [exact E1|]. split; [exact E2|]. split; [exact E3|]. constructor; [|exact F2].
      assert (Ff : Forall finx (resize (lr_coeffs r) (List.length vs) ++ [Fin (-1)%Q])).
      { apply Forall_app. split; [apply Forall_finx_resize; exact Fc|constructor; [reflexivity|constructor]]. }
      destruct (eq_new_dot _ (lr_rhs r) vs' (fun _ => 0) Ff Fr) as [R0 _].
      split; [exact R0|]. split.
      { unfold e, eq_new. destruct (xq_ltb _ _); cbn [eq_coeffs]; rewrite ?map_length, app_length, resize_length, E2, app_length; cbn; lia. }
      intros tau Eq N. destruct (eq_new_dot _ (lr_rhs r) vs' tau Ff Fr) as [_ I]. apply I in Eq. clear I.
      rewrite E2 in Eq. rewrite dot_app in Eq by (rewrite resize_length; reflexivity).
      rewrite dot_resize in Eq by lia. cbn [dot xval] in Eq.
      replace (Q2R (-1)) with (-1) in Eq by (unfold Q2R; cbn; lra).
      rewrite C. cbn [cmp_holds]. rewrite E2, dot_names_app by lia.
      assert (0 <= tau s) by (apply N; rewrite E2; apply in_or_app; right; left; reflexivity). lra.
    + (* Eq *)
      set (e := eq_new (lr_coeffs r) (lr_rhs r)) in *.
      destruct (IH su sl vs (acc ++ [e]) eqs vs' tot' (List.length (lr_coeffs r))) as [news [added [E1 [E2 [E3 F2]]]]];
        [exact Lb|exact Hok'|exact H|].
      exists (e :: news), added. rewrite <- app_assoc in E1. cbn [app] in E1.
      split; [exact E1|]. split; [exact E2|]. split; [exact E3|]. constructor; [|exact F2].
      destruct (eq_new_dot _ (lr_rhs r) vs' (fun _ => 0) Fc Fr) as [R0 _].
      split; [exact R0|]. split.
      { unfold e, eq_new. destruct (xq_ltb _ _); cbn [eq_coeffs]; rewrite ?map_length, E2, app_length; lia. }
      intros tau Eq N. destruct (eq_new_dot _ (lr_rhs r) vs' tau Fc Fr) as [_ I]. apply I in Eq.
      rewrite C. cbn [cmp_holds]. exact Eq.
Qed.

Lemma is_free_spec_gen (P : nat -> bool) n k : (k < n)%nat -> is_free_idx (filter P (seq 0 n)) k = P k.
Proof.
  intros L. unfold is_free_idx. destruct (P k) eqn:E.
  - apply existsb_exists. exists k. split; [apply filter_In; split; [apply in_seq; lia|exact E]|apply Nat.eqb_refl].
  - apply Bool.not_true_is_false. intros T. apply existsb_exists in T as [i [Hi Ei]]. apply Nat.eqb_eq in Ei. subst i.
    apply filter_In in Hi as [_ Hi]. congruence.
Qed.

(* ---------- lengths: the surgery leaves n + |free| columns, which is the `total` the implementation starts from *)
Section Lengths.
  Variable P : nat -> bool.
  Variable n : nat.
  Let free := filter P (seq 0 n).
  Lemma kept_plus_free {A} : forall (l : list A) k, (k + List.length l <= n)%nat ->
    (List.length (remove_from k l free) + List.length (filter P (seq k (List.length l))) = List.length l)%nat.
  Proof.
    induction l as [|x l IH]; intros k L; [reflexivity|]. rewrite remove_from_cons, app_length. cbn [List.length seq filter].
    cbn in L. change (existsb (Nat.eqb k) free) with (is_free_idx (filter P (seq 0 n)) k).
    rewrite (is_free_spec_gen P n k) by lia.
    specialize (IH (S k) ltac:(lia)). destruct (P k); cbn [List.length]; lia.
  Qed.
End Lengths.

(* ---------- the whole conversion, backward direction *)
Lemma free_as_filter (f : string -> bool) : forall (vs : list string) k,
  map fst (filter (fun p : nat * string => f (snd p)) (combine (seq k (List.length vs)) vs))
  = filter (fun i => f (nth (i - k) vs ""%string)) (seq k (List.length vs)).
Proof.
  induction vs as [|v vs IH]; intros k; [reflexivity|]. cbn [List.length seq combine filter snd]. rewrite Nat.sub_diag.
  change (nth 0 (v :: vs) ""%string) with v.
  assert (E : filter (fun i => f (nth (i - k) (v :: vs) ""%string)) (seq (S k) (List.length vs))
            = filter (fun i => f (nth (i - S k) vs ""%string)) (seq (S k) (List.length vs))).
  { apply filter_ext_in. intros i Hi. apply in_seq in Hi. replace (i - k)%nat with (S (i - S k)) by lia. reflexivity. }
  destruct (f v); cbn [map fst]; rewrite IH, E; reflexivity.
Qed.

Definition test_free (dom : list (string * vtype)) (v : string) : bool :=
  match al_get dom v with Some t => is_free_kind t | None => false end.
Definition sat_std (S : stdmodel) (tau : string -> R) : Prop :=
  (forall e, In e (sm_cons S) -> dot (eq_coeffs e) (sm_vars S) tau = xval (eq_rhs e)) /\
  (forall v, In v (sm_vars S) -> 0 <= tau v).
Definition lrow_ok (n : nat) (r : lrow) : Prop := List.length (lr_coeffs r) = n /\ Forall finx (lr_coeffs r) /\ finx (lr_rhs r).

Lemma Forall2_in_l {A B} (Q : A -> B -> Prop) l m a : Forall2 Q l m -> In a l -> exists b, In b m /\ Q a b.
Proof. induction 1 as [|x y l m Hxy _ IH]; intros Hin; [destruct Hin|]. destruct Hin as [->|Hin]; [exists y; split; [left; reflexivity|exact Hxy]|]. destruct (IH Hin) as [b [Hb Qb]]. exists b. split; [right; exact Hb|exact Qb]. Qed.

Lemma normalize_all_vars : forall rows ctx vs acc eqs vs' tot',
  normalize_all rows ctx vs acc = inr (eqs, vs', tot') -> exists added, vs' = vs ++ added.
Proof.
  induction rows as [|r rows IH]; intros [[su sl] tot] vs acc eqs vs' tot' H; cbn [normalize_all] in H.
  - inversion H; subst. exists []. rewrite app_nil_r. reflexivity.
  - destruct (normalize_row r (su, sl, tot)) as [e|[[eqc added] [[su' sl'] tot'']]]; [discriminate|].
    destruct added as [v|].
    + apply IH in H as [added ->]. exists (v :: added). rewrite <- app_assoc. reflexivity.
    + apply IH in H. exact H.
Qed.

Definition is_max (d : direction) : bool := match d with DMax => true | _ => false end.

Section Whole.
  Variable L : linmodel.
  Let vars := lm_vars L.
  Let n := List.length vars.
  Let P := fun i => test_free (lm_domain L) (nth i vars ""%string).
  Let free := filter P (seq 0 n).
  Definition std_rows1 (brows : list lrow) : list lrow :=
    map (fun r0 : lrow => mkLRow (lr_name r0) (remove_many (ext_c vars P (lr_coeffs r0)) free) (lr_cmp r0) (lr_rhs r0)) (lm_rows L ++ brows).
  Definition std_vars2 : list string := remove_many (ext_n vars P) free.
  Definition std_obj2 : list xq := remove_many (ext_c vars P (lm_objective L)) free.

  (* to_standard_form, taken apart once *)
  Lemma std_form_inv S : to_standard_form L = inr S ->
    exists brows eqs0 vars3 total',
      forallb (fun p => is_real_kind (snd p)) (lm_domain L) = true /\
      bound_rows vars (lm_domain L) = Some brows /\
      normalize_all (std_rows1 brows) (O, O, (List.length vars + List.length free)%nat) std_vars2 [] = inr (eqs0, vars3, total') /\
      lm_dir L <> DSatisfy /\
      S = mkSM vars3 (lm_offset L)
            (resize (if is_max (lm_dir L) then map (fun c => xq_mul c (Fin (-1)%Q)) std_obj2 else std_obj2) (List.length vars3))
            (is_max (lm_dir L))
            (map (fun c => mkEQ (resize (eq_coeffs c) (List.length vars3)) (eq_rhs c))
                 (map (fun c => mkEQ (resize (eq_coeffs c) total') (eq_rhs c)) eqs0)).
  Proof.
    intros HS. unfold to_standard_form in HS.
    destruct (forallb (fun p => is_real_kind (snd p)) (lm_domain L)) eqn:RK; [|discriminate]. cbn [negb] in HS.
    fold vars in HS. destruct (bound_rows vars (lm_domain L)) as [brows|] eqn:HB; [|discriminate].
    pose proof (free_as_filter (test_free (lm_domain L)) vars 0) as FE.
    assert (FE' : map fst (filter (fun p : nat * string => match al_get (lm_domain L) (snd p) with Some t => is_free_kind t | None => false end)
                    (combine (seq 0 (List.length vars)) vars)) = free).
    { unfold test_free in FE. rewrite FE. unfold free, P, n, test_free. apply filter_ext. intros i. rewrite Nat.sub_0_r. reflexivity. }
    rewrite FE' in HS.
    match type of HS with context [normalize_all ?rs ?ctx ?vs ?acc] =>
      change rs with (std_rows1 brows) in HS; change vs with std_vars2 in HS;
      destruct (normalize_all (std_rows1 brows) ctx std_vars2 acc) as [err|[[eqs0 vars3] total']] eqn:NA; [discriminate|] end.
    exists brows, eqs0, vars3, total'. split; [reflexivity|]. split; [reflexivity|]. split; [exact NA|].
    destruct (lm_dir L) eqn:D; try discriminate; (split; [discriminate|]); inversion HS; reflexivity.
  Qed.

  Lemma std_vars2_eq : std_vars2 = remove_from 0 vars free ++ halves_n P 0 vars.
  Proof.
    unfold std_vars2. rewrite ext_n_eq, remove_many_from.
    rewrite remove_from_app by (intros i Hi; apply (free_lt vars P); exact Hi). reflexivity.
  Qed.
  Lemma std_vars2_len : List.length std_vars2 = (List.length vars + List.length free)%nat.
  Proof.
    unfold std_vars2. rewrite ext_n_eq, remove_many_from.
    rewrite remove_from_app by (intros i Hi; apply (free_lt vars P); exact Hi).
    rewrite app_length.
    pose proof (kept_plus_free P n vars 0 ltac:(unfold n; lia)) as K. fold free in K.
    assert (Hh : List.length (halves_n P 0 vars) = (2 * List.length free)%nat).
    { unfold halves_n, free, n. generalize (filter P (seq 0 (List.length vars))). induction l as [|x l IHl]; [reflexivity|]. cbn [flat_map List.length app]. rewrite IHl. lia. }
    unfold n in K. rewrite Hh. unfold free in *. fold n in K |- *. lia.
  Qed.

  (* a coefficient list of the right length keeps its shape through the surgery *)
  Lemma surgery_ok cs : List.length cs = n -> Forall finx cs ->
    List.length (remove_many (ext_c vars P cs) free) = List.length std_vars2 /\ Forall finx (remove_many (ext_c vars P cs) free).
  Proof.
    intros L0 F0. split.
    - unfold std_vars2. rewrite !remove_many_from. apply (remove_from_len vars).
      rewrite ext_c_eq by exact L0. rewrite ext_n_eq. rewrite !app_length. rewrite (halves_len P 0 cs vars L0). lia.
    - rewrite ext_c_eq by exact L0. rewrite remove_many_from.
      rewrite remove_from_app by (intros i Hi; rewrite L0; apply (free_lt vars P); exact Hi).
      apply Forall_app. split.
      + unfold remove_from. apply Forall_forall. intros x Hx. apply in_map_iff in Hx as [[i y] [<- Hy]]. apply filter_In in Hy as [Hy _].
        apply in_combine_r in Hy. exact (proj1 (Forall_forall _ _) F0 y Hy).
      + unfold halves_c. apply Forall_forall. intros x Hx. apply in_flat_map in Hx as [i [Hi Hx]]. cbv zeta in Hx.
        apply filter_In in Hi as [Hseq _]. apply in_seq in Hseq. rewrite Nat.sub_0_r in Hx.
        pose proof (nth_In cs NaN (n:=i) ltac:(lia)) as Hin. pose proof (proj1 (Forall_forall _ _) F0 _ Hin) as Fn.
        destruct Hx as [<-|[<-|[]]]; [exact Fn|]. destruct (finx_inv _ Fn) as [q ->]. reflexivity.
  Qed.

  (* every row of the model and every bound row holds at the point the standard-form point stands for *)
  Theorem std_point_satisfies_rows S brows :
    to_standard_form L = inr S ->
    bound_rows vars (lm_domain L) = Some brows ->
    Forall (lrow_ok n) (lm_rows L ++ brows) ->
    forall tau, sat_std S tau ->
    forall r, In r (lm_rows L ++ brows) ->
      cmp_holds (lr_cmp r) (dot_back free tau 0 (lr_coeffs r) vars) (xval (lr_rhs r)).
  Proof.
    intros HS HB Hok tau [Hcons Hnn] r Hr.
    destruct (std_form_inv S HS) as [brows' [eqs0 [vars3 [total' [_ [HB' [NA [_ ES]]]]]]]].
    rewrite HB in HB'. inversion HB'; subst brows'. clear HB'.
    rewrite <- std_vars2_len in NA.
    assert (Hok1 : Forall (row_ok (List.length std_vars2)) (std_rows1 brows)).
    { unfold std_rows1. apply Forall_forall. intros r1 Hr1. apply in_map_iff in Hr1 as [r0 [<- Hr0]].
      destruct (proj1 (Forall_forall _ _) Hok r0 Hr0) as [L0 [F0 R0]].
      destruct (surgery_ok (lr_coeffs r0) L0 F0) as [A B].
      unfold row_ok. cbn [lr_coeffs lr_rhs]. split; [exact A|]. split; [exact B|exact R0]. }
    destruct (normalize_all_spec (std_rows1 brows) O O std_vars2 [] eqs0 vars3 total' (List.length std_vars2) (le_n _) Hok1 NA) as [news [added [E1 [E2 [E3 F2]]]]].
    cbn [app] in E1. subst eqs0. subst S. cbn [sm_cons sm_vars] in Hcons, Hnn.
    set (r1 := mkLRow (lr_name r) (remove_many (ext_c vars P (lr_coeffs r)) free) (lr_cmp r) (lr_rhs r)).
    assert (Hr1 : In r1 (std_rows1 brows)) by (unfold std_rows1; apply in_map_iff; exists r; split; [reflexivity|exact Hr]).
    destruct (Forall2_in_l _ _ _ _ F2 Hr1) as [e [He [R0 [Le Hspec]]]].
    destruct (proj1 (Forall_forall _ _) Hok r Hr) as [L0 [F0 Rr]].
    assert (Hval : dot (eq_coeffs e) vars3 tau = xval (eq_rhs e)).
    { specialize (Hcons (mkEQ (resize (eq_coeffs (mkEQ (resize (eq_coeffs e) total') (eq_rhs e))) (List.length vars3)) (eq_rhs (mkEQ (resize (eq_coeffs e) total') (eq_rhs e))))).
      cbn [eq_coeffs eq_rhs] in Hcons. rewrite <- Hcons.
      - rewrite !dot_resize; [reflexivity|lia|rewrite resize_length; lia].
      - apply in_map_iff. exists (mkEQ (resize (eq_coeffs e) total') (eq_rhs e)). split; [reflexivity|]. apply in_map_iff. exists e. split; [reflexivity|exact He]. }
    specialize (Hspec tau Hval Hnn). unfold r1 in Hspec. cbn [lr_cmp lr_coeffs lr_rhs] in Hspec.
    rewrite E2 in Hspec. rewrite dot_names_app in Hspec.
    - unfold std_vars2, free, n in Hspec |- *. rewrite (surgery_value vars P tau (lr_coeffs r) L0 F0) in Hspec. exact Hspec.
    - destruct (surgery_ok (lr_coeffs r) L0 F0) as [A _]. fold free. lia.
  Qed.

  (* the objective row: its value at the standard-form point is the model's objective at the back-mapped point, negated for max *)
  Theorem std_objective_value S :
    to_standard_form L = inr S -> List.length (lm_objective L) = n -> Forall finx (lm_objective L) ->
    forall tau, dot (sm_obj S) (sm_vars S) tau
      = (if sm_flip S then -1 else 1) * dot_back free tau 0 (lm_objective L) vars.
  Proof.
    intros HS L0 F0 tau.
    destruct (std_form_inv S HS) as [brows [eqs0 [vars3 [total' [_ [HB [NA [_ ES]]]]]]]].
    destruct (normalize_all_vars _ _ _ _ _ _ _ NA) as [added E2].
    destruct (surgery_ok (lm_objective L) L0 F0) as [A B]. fold std_obj2 in A, B.
    subst S. cbn [sm_obj sm_vars sm_flip].
    assert (V : dot std_obj2 vars3 tau = dot_back free tau 0 (lm_objective L) vars).
    { rewrite E2, dot_names_app by lia. unfold std_obj2, std_vars2, free, n. apply (surgery_value vars P tau (lm_objective L) L0 F0). }
    destruct (is_max (lm_dir L)).
    - rewrite dot_resize by (rewrite map_length, E2, app_length; lia). rewrite dot_neg by exact B. rewrite V. lra.
    - rewrite dot_resize by (rewrite E2, app_length; lia). rewrite V. lra.
  Qed.
End Whole.
