(* C16: the builder's translation commutes with evaluation: evaluating a builder expression with the builder's own
   evaluator gives exactly the value the language's semantics assigns to the translated expression, at every real
   assignment - for every expression the builder can construct. *)
From Coq Require Import QArith Qreals Reals ZArith Bool List String.
From Rooc Require Import Base.XQ Model.Exp Model.Sem Model.Builder Proof.XQFacts Proof.SemFacts.
Import ListNotations.
Local Close Scope Q_scope.

Section Ind.
  Variable P : bexpr -> Prop.
  Hypothesis HNum : forall x, P (ENum x).
  Hypothesis HVar : forall i, P (EVar i).
  Hypothesis HAbs : forall e, P e -> P (EAbs e).
  Hypothesis HMin : forall l, Forall P l -> P (EMin l).
  Hypothesis HMax : forall l, Forall P l -> P (EMax l).
  Hypothesis HAnd : forall l, Forall P l -> P (EAnd l).
  Hypothesis HOr : forall l, Forall P l -> P (EOr l).
  Hypothesis HNot : forall e, P e -> P (ENot e).
  Hypothesis HXor : forall a b, P a -> P b -> P (EXor a b).
  Hypothesis HImplies : forall a b, P a -> P b -> P (EImplies a b).
  Hypothesis HIff : forall a b, P a -> P b -> P (EIff a b).
  Hypothesis HBin : forall op a b, P a -> P b -> P (EBin op a b).
  Hypothesis HUn : forall op e, P e -> P (EUn op e).
  Fixpoint bexpr_ind' (e : bexpr) : P e :=
    let fix lind (l : list bexpr) : Forall P l :=
      match l with
      | [] => Forall_nil P
      | x :: xs => Forall_cons x (bexpr_ind' x) (lind xs)
      end in
    match e with
    | ENum x => HNum x
    | EVar i => HVar i
    | EAbs x => HAbs x (bexpr_ind' x)
    | EMin l => HMin l (lind l)
    | EMax l => HMax l (lind l)
    | EAnd l => HAnd l (lind l)
    | EOr l => HOr l (lind l)
    | ENot x => HNot x (bexpr_ind' x)
    | EXor a b => HXor a b (bexpr_ind' a) (bexpr_ind' b)
    | EImplies a b => HImplies a b (bexpr_ind' a) (bexpr_ind' b)
    | EIff a b => HIff a b (bexpr_ind' a) (bexpr_ind' b)
    | EBin op a b => HBin op a b (bexpr_ind' a) (bexpr_ind' b)
    | EUn op x => HUn op x (bexpr_ind' x)
    end.
End Ind.

Section S.
  Variable names : list string.
  Variable rho : string -> R.
  Definition var_of (i : nat) : R := rho (name_of names i).
  Notation beval := (beval var_of).

  Fixpoint blist (l : list bexpr) : option (list R) :=
    match l with
    | [] => Some []
    | x :: xs => match beval x, blist xs with Some v, Some vs => Some (v :: vs) | _, _ => None end
    end.

  Lemma beval_Min l : beval (EMin l) = match blist l with Some vs => fold_min vs | None => None end.
  Proof.
    cbn [Builder.beval]. match goal with |- match ?f l with _ => _ end = _ => assert (H : forall k, f k = blist k) end.
    { induction k as [|x xs IH]; [reflexivity|]. cbn [blist]. rewrite <- IH. reflexivity. }
    rewrite H. reflexivity.
  Qed.
  Lemma beval_Max l : beval (EMax l) = match blist l with Some vs => fold_max vs | None => None end.
  Proof.
    cbn [Builder.beval]. match goal with |- match ?f l with _ => _ end = _ => assert (H : forall k, f k = blist k) end.
    { induction k as [|x xs IH]; [reflexivity|]. cbn [blist]. rewrite <- IH. reflexivity. }
    rewrite H. reflexivity.
  Qed.
  Lemma beval_And l : beval (EAnd l) = option_map (fun vs => bnR (forallb truthyR vs)) (blist l).
  Proof.
    cbn [Builder.beval]. match goal with |- option_map _ (?f l) = _ => assert (H : forall k, f k = blist k) end.
    { induction k as [|x xs IH]; [reflexivity|]. cbn [blist]. rewrite <- IH. reflexivity. }
    rewrite H. reflexivity.
  Qed.
  Lemma beval_Or l : beval (EOr l) = option_map (fun vs => bnR (existsb truthyR vs)) (blist l).
  Proof.
    cbn [Builder.beval]. match goal with |- option_map _ (?f l) = _ => assert (H : forall k, f k = blist k) end.
    { induction k as [|x xs IH]; [reflexivity|]. cbn [blist]. rewrite <- IH. reflexivity. }
    rewrite H. reflexivity.
  Qed.

  (* in the untyped semantics the operand test of and/or is vacuous *)
  Lemma evlist_ok_untyped l : evlist_ok rho false l = evlist rho false l.
  Proof.
    induction l as [|x xs IH]; cbn [evlist_ok evlist]; [reflexivity|]. rewrite IH.
    destruct (evg rho false x); [|reflexivity]. destruct (evlist rho false xs); reflexivity.
  Qed.

  Lemma lists_agree l :
    Forall (fun e => ev rho (to_exp names e) = beval e) l -> evlist rho false (map (to_exp names) l) = blist l.
  Proof.
    induction 1 as [|x xs Hx Hxs IH]; cbn [map evlist blist]; [reflexivity|].
    unfold ev in Hx. rewrite Hx, IH. reflexivity.
  Qed.

  Theorem to_exp_commutes : forall e, ev rho (to_exp names e) = beval e.
  Proof.
    induction e as [x|i|e IH|l IH|l IH|l IH|l IH|e IH|a b IHa IHb|a b IHa IHb|a b IHa IHb|op a b IHa IHb|op e IH] using bexpr_ind';
      cbn [to_exp]; unfold ev in *.
    - destruct x; reflexivity.
    - reflexivity.
    - rewrite evg_Abs, IH. reflexivity.
    - rewrite evg_Min, beval_Min, (lists_agree l IH). reflexivity.
    - rewrite evg_Max, beval_Max, (lists_agree l IH). reflexivity.
    - rewrite evg_And, beval_And, evlist_ok_untyped, (lists_agree l IH). reflexivity.
    - rewrite evg_Or, beval_Or, evlist_ok_untyped, (lists_agree l IH). reflexivity.
    - rewrite evg_Not, IH. reflexivity.
    - rewrite evg_Xor, IHa, IHb. reflexivity.
    - rewrite evg_Implies, IHa, IHb. reflexivity.
    - rewrite evg_Iff, IHa, IHb. reflexivity.
    - rewrite evg_BinOp, IHa, IHb. cbn [Builder.beval].
      destruct (Builder.beval var_of a) as [x|]; [|reflexivity]. destruct (Builder.beval var_of b) as [y|]; [|reflexivity].
      destruct op; reflexivity.
    - destruct op; [rewrite evg_Neg|rewrite evg_UNot]; rewrite IH; reflexivity.
  Qed.

  (* reading a value back through a handle is reading it by the handle's name *)
  Lemma handle_is_name {V} (sol : string -> option V) h n :
    nth_error names h = Some n -> handle_value names sol h = sol n.
  Proof. unfold handle_value. intros ->. reflexivity. Qed.
End S.
