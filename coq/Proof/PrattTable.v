(* C09: the general Pratt theorems instantiated with the operator table regenerated from the source. *)
From Coq Require Import Bool List Arith Lia String.
From Rooc Require Import Model.Exp Gen.PrattTable Model.Pratt Proof.PrattSound.
Import ListNotations.

Lemma src_prefix_tightest : forall u b, src_prec b <= src_pprec u - 1.
Proof. intros u b. destruct u, b; vm_compute; lia. Qed.

Theorem src_pratt_sound ts t : src_parse ts = Some t -> flatten t = ts /\ wfr src_prec src_rassoc src_pprec 0 t.
Proof. apply pratt_sound. Qed.
Theorem src_pratt_complete t : wfr src_prec src_rassoc src_pprec 0 t -> src_parse (flatten t) = Some t.
Proof. apply pratt_complete. exact src_prefix_tightest. Qed.
Theorem src_wf_unique t1 t2 :
  wfr src_prec src_rassoc src_pprec 0 t1 -> wfr src_prec src_rassoc src_pprec 0 t2 -> flatten t1 = flatten t2 -> t1 = t2.
Proof. apply wf_unique. exact src_prefix_tightest. Qed.

Lemma src_level_order :
  src_pprec Neg = src_pprec UNot /\
  src_prec Mul = src_prec Div /\ src_prec Add = src_prec Sub /\ src_prec BImplies = src_prec BIff /\
  src_prec BIff < src_prec BOr /\ src_prec BOr < src_prec BXor /\ src_prec BXor < src_prec BAnd /\
  src_prec BAnd < src_prec Add /\ src_prec Add < src_prec Mul /\ src_prec Mul < src_pprec Neg /\
  src_rassoc BImplies = true /\
  forallb (fun op => negb (src_rassoc op)) [Add; Sub; Mul; Div; BAnd; BOr; BXor; BIff] = true.
Proof. vm_compute. repeat split; lia. Qed.

Lemma src_implies_iff :
  src_parse [TAtom 0; TInfix BImplies; TAtom 1; TInfix BIff; TAtom 2] = Some (Bin BImplies (Leaf 0) (Bin BIff (Leaf 1) (Leaf 2))) /\
  src_parse [TAtom 0; TInfix BIff; TAtom 1; TInfix BImplies; TAtom 2] = Some (Bin BImplies (Bin BIff (Leaf 0) (Leaf 1)) (Leaf 2)).
Proof. split; vm_compute; reflexivity. Qed.

Lemma src_equal_level_left op1 op2 :
  src_prec op1 = src_prec op2 -> src_rassoc op1 = false -> src_rassoc op2 = false ->
  src_parse [TAtom 0; TInfix op1; TAtom 1; TInfix op2; TAtom 2] = Some (Bin op2 (Bin op1 (Leaf 0) (Leaf 1)) (Leaf 2)).
Proof. destruct op1, op2; vm_compute; intros; try discriminate; try lia; reflexivity. Qed.
