(* Frame properties of the linearizer monad: every action only appends fresh names to the domain,
   keeps the domain duplicate-free and leaves the box of existing names untouched. *)
From Coq Require Import QArith ZArith NArith Bool List String Lia.
From Rooc Require Import Base.XQ Model.Exp Model.Simplify Model.Flatten Model.Bounds Model.Linearize
  Proof.AListFacts.
Import ListNotations.
Local Close Scope Q_scope.
Local Open Scope string_scope.
Local Open Scope list_scope.

Definition keys (s : lst) : list string := map fst (s_dom s).

Record ext (s s' : lst) : Prop := mkExt {
  ext_dom : exists extra, s_dom s' = s_dom s ++ extra;
  ext_nodup : NoDup (keys s) -> NoDup (keys s');
  ext_box : forall n, al_mem (s_dom s) n = true -> a_get (s_an s') n = a_get (s_an s) n }.

Lemma ext_refl s : ext s s.
Proof. split; [exists []; rewrite app_nil_r; reflexivity|auto|auto]. Qed.

Lemma al_mem_app {V} (m1 m2 : list (string * V)) n : al_mem m1 n = true -> al_mem (m1 ++ m2) n = true.
Proof.
  unfold al_mem. induction m1 as [|[k v] r IH]; cbn; [discriminate|].
  destruct (String.eqb n k); [reflexivity|exact IH].
Qed.

Lemma ext_trans s1 s2 s3 : ext s1 s2 -> ext s2 s3 -> ext s1 s3.
Proof.
  intros [[e1 D1] N1 B1] [[e2 D2] N2 B2]. split.
  - exists (e1 ++ e2). rewrite D2, D1, app_assoc. reflexivity.
  - auto.
  - intros n Hn. rewrite B2; [apply B1; exact Hn|]. rewrite D1. apply al_mem_app. exact Hn.
Qed.

Lemma ext_same_dom s s' : s_dom s' = s_dom s -> s_an s' = s_an s -> ext s s'.
Proof.
  intros D A. split.
  - exists []. rewrite app_nil_r. exact D.
  - unfold keys. rewrite D. auto.
  - intros n _. rewrite A. reflexivity.
Qed.

Definition pres {A} (m : M A) : Prop := forall s x s', m s = inr (x, s') -> ext s s'.

Lemma pres_ret {A} (x : A) : pres (ret x).
Proof. intros s y s' H. inversion H; subst. apply ext_refl. Qed.
Lemma pres_fail {A} e : pres (@fail A e).
Proof. intros s y s' H. discriminate. Qed.
Lemma pres_bind {A B} (m : M A) (f : A -> M B) : pres m -> (forall x, pres (f x)) -> pres (bind m f).
Proof.
  intros Hm Hf s y s' H. unfold bind in H. destruct (m s) as [e|[x s1]] eqn:E; [discriminate|].
  eapply ext_trans; [eapply Hm; exact E|eapply Hf; exact H].
Qed.
Lemma pres_get_st : pres get_st.
Proof. intros s y s' H. inversion H; subst. apply ext_refl. Qed.
Lemma pres_next_id k : pres (next_id k).
Proof. intros s y s' H. unfold next_id in H. inversion H; subst. apply ext_same_dom; reflexivity. Qed.
Lemma pres_add_constraint c : pres (add_constraint c).
Proof. intros s y s' H. inversion H; subst. apply ext_same_dom; reflexivity. Qed.
Lemma pres_push_row r : pres (push_row r).
Proof. intros s y s' H. inversion H; subst. apply ext_same_dom; reflexivity. Qed.

Lemma al_mem_false_notin {V} (m : list (string * V)) n : al_mem m n = false -> ~ In n (map fst m).
Proof.
  unfold al_mem. induction m as [|[k v] r IH]; cbn; [auto|].
  destruct (String.eqb n k) eqn:E; [discriminate|]. intros H [K|K].
  - subst k. rewrite String.eqb_refl in E. discriminate.
  - exact (IH H K).
Qed.
Lemma al_mem_true_neq {V} (m : list (string * V)) n k : al_mem m n = true -> al_mem m k = false -> n <> k.
Proof. intros H1 H2 E. subst. congruence. Qed.

Lemma NoDup_snoc {A} (l : list A) x : NoDup l -> ~ In x l -> NoDup (l ++ [x]).
Proof.
  induction l as [|y l IH]; intros ND NI; cbn.
  - constructor; [auto|constructor].
  - inversion ND; subst. constructor.
    + rewrite in_app_iff. intros [H|[H|[]]]; [contradiction|subst; apply NI; left; reflexivity].
    + apply IH; [assumption|]. intros H. apply NI. right. exact H.
Qed.

Lemma pres_declare n t : pres (declare_variable n t).
Proof.
  intros s y s' H. unfold declare_variable in H.
  destruct (al_mem (s_dom s) n) eqn:M; [discriminate|]. inversion H; subst; clear H. split; cbn [s_dom s_an].
  - eexists; reflexivity.
  - unfold keys; cbn [s_dom]. rewrite map_app. cbn. intros ND.
    apply NoDup_snoc; [exact ND|]. apply al_mem_false_notin. exact M.
  - intros k Hk. unfold a_insert_variable, a_get, a_set_vb; cbn [a_vb].
    rewrite al_get_insert_other; [reflexivity|]. eapply al_mem_true_neq; eassumption.
Qed.

Lemma pres_mapMM {A B} (f : A -> M B) l : (forall x, pres (f x)) -> pres (mapMM f l).
Proof.
  intros Hf. induction l as [|x l IH]; cbn [mapMM]; [apply pres_ret|].
  apply pres_bind; [apply Hf|]. intros y. apply pres_bind; [exact IH|]. intros ys. apply pres_ret.
Qed.
Lemma pres_iterM {A} (f : A -> M unit) l : (forall x, pres (f x)) -> pres (iterM f l).
Proof.
  intros Hf. induction l as [|x l IH]; cbn [iterM]; [apply pres_ret|].
  apply pres_bind; [apply Hf|]. intros _. exact IH.
Qed.

Ltac pres_step :=
  first
  [ apply pres_ret | apply pres_fail | apply pres_get_st | apply pres_next_id | apply pres_add_constraint
  | apply pres_push_row | apply pres_declare
  | apply pres_bind; [|intro]
  | apply pres_mapMM; intro
  | apply pres_iterM; intro
  | assumption
  | match goal with
    | H : forall e r, pres (?rec e r) |- pres (?rec _ _) => apply H
    | |- pres (if ?b then _ else _) => destruct b
    | |- pres (match ?x with _ => _ end) => destruct x
    end ].
Ltac pres_tac := repeat pres_step.

Section Rec.
  Variable rec : exp -> req -> M lctx.
  Hypothesis Hrec : forall e r, pres (rec e r).

  Lemma pres_lbo l r : pres (linearize_binary_operands rec l r).
  Proof. unfold linearize_binary_operands. pres_tac. Qed.
  Lemma pres_reify name cs : pres (reify_logic_variable name cs).
  Proof. unfold reify_logic_variable. pres_tac. Qed.
  Lemma pres_extreme k l r : pres (linearize_extreme rec k l r).
  Proof. unfold linearize_extreme. destruct l; [apply pres_fail|]. pres_tac. Qed.
  Lemma pres_lin_step e r : pres (lin_step rec e r).
  Proof.
    unfold lin_step. destruct e; try (pres_tac; fail).
    - apply pres_extreme.
    - apply pres_extreme.
  Qed.
End Rec.

Lemma pres_lin : forall n e r, pres (lin n e r).
Proof. induction n as [|n IH]; intros e r; cbn [lin]; [apply pres_fail|]. apply pres_lin_step. exact IH. Qed.
Lemma pres_linearize_exp e r : pres (linearize_exp e r).
Proof. apply pres_lin. Qed.
Lemma pres_flatten_simplify e : pres (flatten_simplify e).
Proof. unfold flatten_simplify. pres_tac. Qed.
Lemma pres_emit l c r name : pres (emit_constraint l c r name).
Proof.
  unfold emit_constraint. apply pres_bind; [apply pres_flatten_simplify|intro].
  apply pres_bind; [apply pres_linearize_exp|intro]. apply pres_push_row.
Qed.

Ltac pres_tac2 :=
  repeat first [ apply pres_emit | apply pres_linearize_exp | apply pres_flatten_simplify
               | apply pres_lbo; intros; apply pres_linearize_exp | pres_step ].

Lemma pres_try_lower_affine : forall e must name, pres (try_lower_affine e must name).
Proof.
  fix IH 1. intros e must name. destruct e; cbn [try_lower_affine]; try (pres_tac2; fail).
  - apply IH.
  - destruct op; [pres_tac2|apply IH].
Qed.

Lemma pres_fresh_witness : pres fresh_witness.
Proof. unfold fresh_witness. pres_tac. Qed.

Lemma pres_witness : forall n e truth, pres (witness n e truth).
Proof.
  induction n as [|n IH]; intros e truth; cbn [witness]; [apply pres_fail|].
  apply pres_bind; [apply pres_get_st|intro s].
  destruct (binary_affine_value s e); [apply pres_ret|].
  destruct e;
    repeat first [ apply IH | apply pres_fresh_witness | apply pres_emit
                 | apply pres_linearize_exp | apply pres_flatten_simplify
                 | (apply pres_lbo; intros; apply pres_linearize_exp)
                 | pres_step ].
Qed.
Lemma pres_directional e truth : pres (directional_logic_witness e truth).
Proof. apply pres_witness. Qed.

Lemma pres_lower_assert : forall n e must name, pres (lower_assert n e must name).
Proof.
  induction n as [|n IH]; intros e must name; cbn [lower_assert]; [apply pres_fail|].
  destruct e;
    repeat first [ apply IH | apply pres_directional | apply pres_try_lower_affine | apply pres_emit
                 | apply pres_linearize_exp | apply pres_flatten_simplify
                 | (apply pres_lbo; intros; apply pres_linearize_exp)
                 | pres_step ].
Qed.
Lemma pres_lower_logic_assertion e must name : pres (lower_logic_assertion e must name).
Proof. apply pres_lower_assert. Qed.

Lemma pres_process c : pres (process_constraint c).
Proof.
  unfold process_constraint. apply pres_bind; [apply pres_flatten_simplify|intro l].
  apply pres_bind; [apply pres_flatten_simplify|intro r].
  destruct (c_assert c); [apply pres_lower_logic_assertion|].
  apply pres_bind; [apply pres_get_st|intro s].
  destruct (try_normalize_logic_constraint s l (c_cmp c) r) as [[e must| |]|];
    [apply pres_lower_logic_assertion|apply pres_ret|apply pres_emit|apply pres_emit].
Qed.

Lemma pres_main_loop : forall fuel, pres (main_loop fuel).
Proof.
  induction fuel as [|fuel IH]; cbn [main_loop]; [apply pres_fail|].
  intros s x s' H. destruct (s_queue s) as [|c rest] eqn:Q.
  - inversion H; subst. apply ext_refl.
  - destruct (process_constraint c _) as [e|[u s1]] eqn:P; [discriminate|].
    eapply ext_trans; [|eapply ext_trans; [eapply pres_process; exact P|eapply IH; exact H]].
    apply ext_same_dom; reflexivity.
Qed.
