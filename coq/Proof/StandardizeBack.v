(* C13, backward direction end to end: a non-negative solution of the standard form, read back by name
   (a free variable v as $p v - $m v), satisfies every row of the linear model, lies in every variable's
   domain, and has the objective value the standard form reports (negated for max). *)
From Coq Require Import QArith Qreals Reals ZArith Bool List String Lra Lia.
From Rooc Require Import Base.XQ Model.Exp Model.Bounds Model.Linearize Model.Spec Model.Standardize
  Proof.XQFacts Proof.PivotSound Proof.StandardizeSound Proof.StandardizeEquiv.
Import ListNotations.
Local Close Scope Q_scope.
Local Open Scope R_scope.
Local Open Scope list_scope.

(* ---------- the back-mapped point as an assignment by name *)
Definition back_point (dom : list (string * vtype)) (tau : string -> R) (v : string) : R :=
  if test_free dom v then tau (pname v) - tau (mname v) else tau v.

Section BackPoint.
  Variable dom : list (string * vtype).
  Variable tau : string -> R.
  Variable vars : list string.
  Let n := List.length vars.
  Let P := fun i => test_free dom (nth i vars ""%string).
  Let free := filter P (seq 0 n).

  Lemma dot_back_point : forall cs pre vs, vars = pre ++ vs ->
    dot_back free tau (List.length pre) cs vs = dot cs vs (back_point dom tau).
  Proof.
    induction cs as [|c cs IH]; intros pre vs E; [reflexivity|]. destruct vs as [|v vs]; [reflexivity|].
    cbn [dot_back dot]. unfold back_at. unfold free.
    rewrite (is_free_spec_gen P n (List.length pre)) by (unfold n; rewrite E, app_length; cbn; lia).
    unfold P. rewrite E, nth_middle. fold (back_point dom tau v). f_equal.
    replace (S (List.length pre)) with (List.length (pre ++ [v])) by (rewrite app_length; cbn; lia).
    rewrite <- E. apply IH. rewrite <- app_assoc. exact E.
  Qed.
  Corollary dot_back_is_dot cs : dot_back free tau 0 cs vars = dot cs vars (back_point dom tau).
  Proof. exact (dot_back_point cs [] vars eq_refl). Qed.
End BackPoint.

(* ---------- bound rows *)
Lemma fold_left_ext' {A B} (f g : A -> B -> A) : (forall a b, f a b = g a b) -> forall l a, fold_left f l a = fold_left g l a.
Proof. intros H. induction l as [|x l IH]; intros a; [reflexivity|]. cbn [fold_left]. rewrite H. apply IH. Qed.

Definition opt_step {A B} (g : B -> option (list A)) (a : option (list A)) (p : B) : option (list A) :=
  match a with None => None | Some rows => match g p with None => None | Some e => Some (rows ++ e) end end.
Lemma fold_opt_none {A B} (g : B -> option (list A)) ps : fold_left (opt_step g) ps None = None.
Proof. induction ps as [|p ps IH]; [reflexivity|exact IH]. Qed.
Lemma fold_opt {A B} (g : B -> option (list A)) : forall ps acc out,
  fold_left (opt_step g) ps (Some acc) = Some out ->
  incl acc out /\ (forall p, In p ps -> exists e, g p = Some e /\ incl e out) /\
  (forall r, In r out -> In r acc \/ exists p e, In p ps /\ g p = Some e /\ In r e).
Proof.
  induction ps as [|p ps IH]; intros acc out H; cbn [fold_left] in H.
  - inversion H; subst. split; [apply incl_refl|]. split; [intros p []|]. intros r Hr. left. exact Hr.
  - unfold opt_step at 2 in H. destruct (g p) as [e|] eqn:G; [|rewrite fold_opt_none in H; discriminate].
    destruct (IH _ _ H) as [I1 [I2 I3]]. split; [intros x Hx; apply I1; apply in_or_app; left; exact Hx|]. split.
    + intros q [<-|Hq]; [exists e; split; [exact G|intros x Hx; apply I1; apply in_or_app; right; exact Hx]|apply I2; exact Hq].
    + intros r Hr. destruct (I3 r Hr) as [Ha|[q [e' [Hq [Gq He']]]]].
      * apply in_app_or in Ha as [Ha|Ha]; [left; exact Ha|right; exists p, e; split; [left; reflexivity|split; assumption]].
      * right. exists q, e'. split; [right; exact Hq|split; assumption].
Qed.

Definition lo_row (n i : nat) (x : xq) : lrow := mkLRow "" (unit_vec n i) Ge x.
Definition hi_row (n i : nat) (x : xq) : lrow := mkLRow "" (unit_vec n i) Le x.
Definition brows_of (n : nat) (dom : list (string * vtype)) (p : nat * string) : option (list lrow) :=
  match al_get dom (snd p) with
  | None => None
  | Some (TReal mn mx) =>
      Some (if xq_eqb mn NInf && xq_eqb mx PInf then []
            else (if negb (xq_eqb mn NInf) then [lo_row n (fst p) mn] else []) ++ (if negb (xq_eqb mx PInf) then [hi_row n (fst p) mx] else []))
  | Some (TNonNegativeReal mn mx) =>
      Some (if xq_is_zero mn && xq_eqb mx PInf then []
            else (if negb (xq_is_zero mn) then [lo_row n (fst p) mn] else []) ++ (if negb (xq_eqb mx PInf) then [hi_row n (fst p) mx] else []))
  | Some _ => Some []
  end.
Lemma bound_rows_as_fold vars dom :
  bound_rows vars dom = fold_left (opt_step (brows_of (List.length vars) dom)) (combine (seq 0 (List.length vars)) vars) (Some []).
Proof.
  unfold bound_rows. apply fold_left_ext'. intros [rows|] p; [|reflexivity]. unfold opt_step, brows_of, lo_row, hi_row.
  destruct (al_get dom (snd p)) as [[| |mn mx|mn mx]|]; try (rewrite app_nil_r; reflexivity); try reflexivity.
  - destruct (xq_is_zero mn && xq_eqb mx PInf); [rewrite app_nil_r|]; reflexivity.
  - destruct (xq_eqb mn NInf && xq_eqb mx PInf); [rewrite app_nil_r|]; reflexivity.
Qed.

Lemma in_combine_seq {A} (d : A) : forall (vs : list A) k i, (i < List.length vs)%nat ->
  In ((k + i)%nat, nth i vs d) (combine (seq k (List.length vs)) vs).
Proof.
  induction vs as [|v vs IH]; intros k i L; [cbn in L; lia|]. cbn [List.length seq combine]. destruct i as [|i].
  - left. rewrite Nat.add_0_r. reflexivity.
  - right. replace (k + S i)%nat with (S k + i)%nat by lia. apply IH. cbn in L. lia.
Qed.
Lemma in_combine_seq_inv {A} (d : A) : forall (vs : list A) k j v, In (j, v) (combine (seq k (List.length vs)) vs) ->
  (k <= j < k + List.length vs)%nat /\ nth (j - k) vs d = v.
Proof.
  induction vs as [|x vs IH]; intros k j v H; [destruct H|]. cbn [List.length seq combine] in H. destruct H as [H|H].
  - inversion H; subst. rewrite Nat.sub_diag. cbn. split; [lia|reflexivity].
  - apply IH in H as [H1 H2]. cbn [List.length]. split; [lia|]. replace (j - k)%nat with (S (j - S k)) by lia. exact H2.
Qed.

(* unit rows pick one variable *)
Lemma dot_unit (sigma : string -> R) i : forall (vs : list string) k,
  dot (map (fun j => if Nat.eqb j i then Fin 1%Q else Fin 0%Q) (seq k (List.length vs))) vs sigma
  = if (Nat.leb k i && Nat.ltb i (k + List.length vs))%bool then sigma (nth (i - k) vs ""%string) else 0.
Proof.
  induction vs as [|v vs IH]; intros k.
  - cbn [List.length seq map dot]. destruct (Nat.leb k i && Nat.ltb i (k + 0))%bool eqn:E; [|reflexivity].
    apply andb_true_iff in E as [E1 E2]. apply Nat.leb_le in E1. apply Nat.ltb_lt in E2. lia.
  - cbn [List.length seq map dot]. rewrite IH.
    destruct (Nat.eqb k i) eqn:K.
    + apply Nat.eqb_eq in K. subst k. rewrite Nat.sub_diag. cbn [nth xval].
      replace (Nat.leb (S i) i) with false by (symmetry; apply Nat.leb_gt; lia). cbn [andb].
      replace (Nat.leb i i && Nat.ltb i (i + S (List.length vs)))%bool with true.
      * rewrite Q2R_1. lra.
      * symmetry. apply andb_true_iff. split; [apply Nat.leb_le; lia|apply Nat.ltb_lt; lia].
    + apply Nat.eqb_neq in K. cbn [xval]. rewrite Q2R_0.
      destruct (Nat.leb (S k) i && Nat.ltb i (S k + List.length vs))%bool eqn:E.
      * apply andb_true_iff in E as [E1 E2]. apply Nat.leb_le in E1. apply Nat.ltb_lt in E2.
        replace (Nat.leb k i && Nat.ltb i (k + S (List.length vs)))%bool with true
          by (symmetry; apply andb_true_iff; split; [apply Nat.leb_le; lia|apply Nat.ltb_lt; lia]).
        replace (i - k)%nat with (S (i - S k)) by lia. cbn [nth]. lra.
      * replace (Nat.leb k i && Nat.ltb i (k + S (List.length vs)))%bool with false; [lra|].
        symmetry. apply andb_false_iff. apply andb_false_iff in E as [E|E].
        -- left. apply Nat.leb_gt in E. apply Nat.leb_gt. lia.
        -- right. apply Nat.ltb_ge in E. apply Nat.ltb_ge. lia.
Qed.
Lemma dot_unit_vec sigma vs i : (i < List.length vs)%nat -> dot (unit_vec (List.length vs) i) vs sigma = sigma (nth i vs ""%string).
Proof.
  intros L. unfold unit_vec. rewrite dot_unit. rewrite Nat.sub_0_r.
  replace (Nat.leb 0 i && Nat.ltb i (0 + List.length vs))%bool with true; [reflexivity|].
  symmetry. apply andb_true_iff. split; [reflexivity|apply Nat.ltb_lt; lia].
Qed.
Lemma unit_vec_ok n i : List.length (unit_vec n i) = n /\ Forall finx (unit_vec n i).
Proof.
  unfold unit_vec. split; [rewrite map_length, seq_length; reflexivity|].
  apply Forall_forall. intros x Hx. apply in_map_iff in Hx as [j [<- _]]. destruct (Nat.eqb j i); reflexivity.
Qed.

(* ---------- well-formedness of the input, as a boolean one can evaluate *)
Lemma coeffs_okb_spec n cs : coeffs_okb n cs = true -> List.length cs = n /\ Forall finx cs.
Proof.
  unfold coeffs_okb. intros H. apply andb_true_iff in H as [H1 H2]. apply Nat.eqb_eq in H1. split; [exact H1|].
  apply Forall_forall. intros x Hx. exact (proj1 (forallb_forall _ _) H2 x Hx).
Qed.
Lemma al_get_in {V} (m : list (string * V)) k v : al_get m k = Some v -> In (k, v) m.
Proof.
  induction m as [|[k' v'] m IH]; cbn [al_get]; [discriminate|]. destruct (String.eqb k k') eqn:E.
  - intros H. inversion H; subst. apply String.eqb_eq in E. subst k'. left. reflexivity.
  - intros H. right. apply IH. exact H.
Qed.
Lemma dom_okb_get dom v t : dom_okb dom = true -> al_get dom v = Some t ->
  match t with TReal a b => lo_okb a = true /\ hi_okb b = true | TNonNegativeReal a b => finx a /\ hi_okb b = true | _ => True end.
Proof.
  intros H G. apply al_get_in in G. pose proof (proj1 (forallb_forall _ _) H _ G) as Hp. cbn [snd] in Hp.
  destruct t; try exact I; apply andb_true_iff in Hp; exact Hp.
Qed.

Lemma lo_fin x : lo_okb x = true -> xq_eqb x NInf = false -> finx x.
Proof. destruct x; cbn; intros; try discriminate; reflexivity. Qed.
Lemma hi_fin x : hi_okb x = true -> xq_eqb x PInf = false -> finx x.
Proof. destruct x; cbn; intros; try discriminate; reflexivity. Qed.
Lemma lo_fin0 x : lo_okb x = true -> xq_is_zero x = false -> x = NInf \/ finx x.
Proof. destruct x; cbn; intros; try discriminate; [right; reflexivity|left; reflexivity]. Qed.

Lemma lrow_unit_ok n i c x : finx x -> lrow_ok n (mkLRow "" (unit_vec n i) c x).
Proof. intros F. unfold lrow_ok. cbn [lr_coeffs lr_rhs]. destruct (unit_vec_ok n i) as [A B]. split; [exact A|]. split; [exact B|exact F]. Qed.

Lemma brows_of_ok n dom p e : dom_okb dom = true -> brows_of n dom p = Some e -> Forall (lrow_ok n) e.
Proof.
  intros D H. unfold brows_of in H. destruct (al_get dom (snd p)) as [t|] eqn:G; [|discriminate].
  pose proof (dom_okb_get dom _ t D G) as K. destruct t as [| |mn mx|mn mx]; inversion H; subst; clear H; try constructor.
  - destruct K as [K1 K2]. destruct (xq_is_zero mn && xq_eqb mx PInf); [constructor|]. apply Forall_app. split.
    + destruct (xq_is_zero mn); cbn [negb]; constructor; [|constructor]. apply lrow_unit_ok. exact K1.
    + destruct (xq_eqb mx PInf) eqn:E; cbn [negb]; constructor; [|constructor]. apply lrow_unit_ok. apply hi_fin; assumption.
  - destruct K as [K1 K2]. destruct (xq_eqb mn NInf && xq_eqb mx PInf); [constructor|]. apply Forall_app. split.
    + destruct (xq_eqb mn NInf) eqn:E; cbn [negb]; constructor; [|constructor]. apply lrow_unit_ok. apply lo_fin; assumption.
    + destruct (xq_eqb mx PInf) eqn:E; cbn [negb]; constructor; [|constructor]. apply lrow_unit_ok. apply hi_fin; assumption.
Qed.

Lemma in_remove_from {A} (d : A) idx : forall (vs : list A) k i, (i < List.length vs)%nat ->
  existsb (Nat.eqb (k + i)) idx = false -> In (nth i vs d) (remove_from k vs idx).
Proof.
  induction vs as [|v vs IH]; intros k i L E; [cbn in L; lia|]. rewrite remove_from_cons. apply in_or_app. destruct i as [|i].
  - left. rewrite Nat.add_0_r in E. rewrite E. left. reflexivity.
  - right. cbn [nth]. apply IH; [cbn in L; lia|]. replace (S k + i)%nat with (k + S i)%nat by lia. exact E.
Qed.


Lemma pick_lo {A} (c1 c2 : bool) (a b : A) : c1 = false ->
  In a (if c1 && c2 then [] else (if negb c1 then [a] else []) ++ (if negb c2 then [b] else [])).
Proof. intros ->. cbn. left. reflexivity. Qed.
Lemma pick_hi {A} (c1 c2 : bool) (a b : A) : c2 = false ->
  In b (if c1 && c2 then [] else (if negb c1 then [a] else []) ++ (if negb c2 then [b] else [])).
Proof. intros ->. rewrite andb_false_r. apply in_or_app. right. left. reflexivity. Qed.

(* ---------- the theorem *)
Section Final.
  Variable L : linmodel.
  Let vars := lm_vars L.
  Let dom := lm_domain L.
  Let n := List.length vars.

  Theorem standard_form_backward S :
    to_standard_form L = inr S -> lin_okb L = true ->
    forall tau, sat_std S tau ->
    (forall r, In r (lm_rows L) -> row_holds vars (back_point dom tau) r) /\
    (forall v t, In v vars -> al_get dom v = Some t -> in_dom t (back_point dom tau v)) /\
    dot (sm_obj S) (sm_vars S) tau = (if sm_flip S then -1 else 1) * dot (lm_objective L) vars (back_point dom tau).
  Proof.
    intros HS OK tau Hsat.
    unfold lin_okb in OK. apply andb_true_iff in OK as [OK Dok]. apply andb_true_iff in OK as [Rok Ook].
    fold vars in Rok, Ook. fold dom in Dok.
    destruct (coeffs_okb_spec _ _ Ook) as [Lo Fo].
    destruct (std_form_inv L S HS) as [brows [eqs0 [vars3 [total' [RK [HB [NA [_ ES]]]]]]]].
    fold vars dom in HB, RK.
    pose proof HB as HBf. rewrite bound_rows_as_fold in HBf. apply fold_opt in HBf as [_ [Hfor Hback]].
    assert (Hok : Forall (lrow_ok n) (lm_rows L ++ brows)).
    { apply Forall_app. split.
      - apply Forall_forall. intros r Hr. pose proof (proj1 (forallb_forall _ _) Rok r Hr) as K. apply andb_true_iff in K as [K1 K2].
        destruct (coeffs_okb_spec _ _ K1) as [A B]. split; [exact A|split; [exact B|exact K2]].
      - apply Forall_forall. intros r Hr. destruct (Hback r Hr) as [[]|[p [e [_ [G He]]]]].
        exact (proj1 (Forall_forall _ _) (brows_of_ok n dom p e Dok G) r He). }
    pose proof (std_point_satisfies_rows L S brows HS HB Hok tau Hsat) as Hrows.
    assert (Hrows' : forall r, In r (lm_rows L ++ brows) -> row_holds vars (back_point dom tau) r).
    { intros r Hr. specialize (Hrows r Hr). unfold row_holds. rewrite <- (dot_back_is_dot dom tau vars). exact Hrows. }
    split; [intros r Hr; apply Hrows'; apply in_or_app; left; exact Hr|]. split.
    - intros v t Hv G.
      destruct (In_nth vars v ""%string Hv) as [i [Li Ei]].
      pose proof (in_combine_seq ""%string vars 0 i Li) as Hp. cbn [Nat.add] in Hp. rewrite Ei in Hp.
      destruct (Hfor _ Hp) as [e [Ge Ie]].
      unfold brows_of in Ge. cbn [fst snd] in Ge. rewrite G in Ge.
      pose proof (dom_okb_get dom v t Dok G) as K.
      assert (RKt : is_real_kind t = true) by (exact (proj1 (forallb_forall _ _) RK (v,t) (al_get_in _ _ _ G))).
      assert (Hrow : forall c x, In (mkLRow "" (unit_vec n i) c x) e -> cmp_holds c (back_point dom tau v) (xval x)).
      { intros c x Hin. pose proof (Hrows' _ (in_or_app _ _ _ (or_intror (Ie _ Hin)))) as Hr. unfold row_holds in Hr. cbn [lr_cmp lr_coeffs lr_rhs] in Hr.
        unfold n in Hr. rewrite dot_unit_vec in Hr by exact Li. rewrite Ei in Hr. exact Hr. }
      destruct t as [| |mn mx|mn mx]; try discriminate RKt; inversion Ge; subst e; clear Ge; cbn [in_dom]; destruct K as [K1 K2].
      + assert (Z : 0 <= back_point dom tau v).
        { unfold back_point, test_free. rewrite G. cbn [is_free_kind]. destruct Hsat as [_ Hnn]. apply Hnn.
          destruct (normalize_all_vars _ _ _ _ _ _ _ NA) as [added E2]. subst S. cbn [sm_vars]. rewrite E2. apply in_or_app. left.
          rewrite std_vars2_eq. apply in_or_app. left. rewrite <- Ei. apply in_remove_from; [exact Li|].
          cbn [Nat.add]. match goal with |- existsb (Nat.eqb i) ?f = false => change (is_free_idx f i = false) end.
          rewrite is_free_spec_gen by exact Li. fold vars dom. rewrite Ei. unfold test_free. rewrite G. reflexivity. }
        split; [exact Z|]. destruct (finx_inv _ K1) as [q ->]. split.
        * cbn [xq_le_R]. destruct (xq_is_zero (Fin q)) eqn:Zq.
          -- rewrite (xq_is_zero_Fin q Zq). exact Z.
          -- specialize (Hrow Ge (Fin q) (pick_lo false _ _ _ eq_refl)). cbn [cmp_holds xval] in Hrow. lra.
        * destruct mx as [q'| | |]; try discriminate K2; [|exact I].
          specialize (Hrow Le (Fin q') (pick_hi _ _ _ _ eq_refl)). cbn [cmp_holds xval] in Hrow. exact Hrow.
      + split.
        * destruct mn as [q| | |]; try discriminate K1; [|exact I].
          specialize (Hrow Ge (Fin q) (pick_lo _ _ _ _ eq_refl)). cbn [cmp_holds xval] in Hrow. cbn [xq_le_R]. lra.
        * destruct mx as [q'| | |]; try discriminate K2; [|exact I].
          specialize (Hrow Le (Fin q') (pick_hi _ _ _ _ eq_refl)). cbn [cmp_holds xval] in Hrow. exact Hrow.
    - rewrite (std_objective_value L S HS Lo Fo tau). rewrite <- (dot_back_is_dot dom tau vars). reflexivity.
  Qed.
End Final.

(* ---------- the premises are met: a model with a free variable, a <= and a >= row with negative rhs, a bound and max *)
Local Open Scope string_scope.
Definition L0 := mkLM ["x";"y"] [("x", TReal NInf (Fin 5%Q)); ("y", TNonNegativeReal (Fin 0%Q) PInf)]
  [mkLRow "c" [Fin 1%Q; Fin 1%Q] Le (Fin 4%Q); mkLRow "d" [Fin 1%Q; Fin (-1)%Q] Ge (Fin (-3)%Q)] [Fin 1%Q; Fin 2%Q] (Fin 0%Q) DMax.
Definition tau0 (v : string) : R :=
  if String.eqb v "y" then 1 else if String.eqb v "$px" then 2 else if String.eqb v "$sl_1" then 1
  else if String.eqb v "$su_1" then 4 else if String.eqb v "$sl_2" then 3 else 0.
Example backward_premises_meet :
  exists S, to_standard_form L0 = inr S /\ lin_okb L0 = true /\ sat_std S tau0 /\ back_point (lm_domain L0) tau0 "x" = 2.
Proof.
  eexists. split; [vm_compute; reflexivity|]. split; [vm_compute; reflexivity|]. split.
  - split.
    + intros e He. cbn [sm_cons In] in He. destruct He as [<-|[<-|[<-|[]]]]; cbn [eq_coeffs eq_rhs sm_vars dot xval]; unfold tau0; cbn [String.eqb Ascii.eqb Bool.eqb]; unfold Q2R; cbn; lra.
    + intros v Hv. cbn [sm_vars In] in Hv. destruct Hv as [<-|[<-|[<-|[<-|[<-|[<-|[]]]]]]]; unfold tau0; cbn [String.eqb Ascii.eqb Bool.eqb]; lra.
  - unfold back_point, tau0. vm_compute test_free. cbn. lra.
Qed.
