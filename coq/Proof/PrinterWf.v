(* C11/C12: the printers' parenthesisation rule always yields an expression that the precedence-climbing parser
   reads back with the original grouping: the rendered tree is well-formed (every parenthesis-free region satisfies
   the declarative predicate of C09) and removing the parentheses gives back the original tree. *)
From Coq Require Import Bool List Arith Lia String.
From Rooc Require Import Model.Exp Model.Pratt Model.Printer.
Import ListNotations.

Section T.
  Variable prec : binop -> nat.
  Variable rassoc : binop -> bool.
  Variable pprec : unop -> nat.
  Hypothesis prec_pos : forall op, 0 < prec op.
  Hypothesis prefix_tightest : forall u b, prec b <= pprec u - 1.
  Notation render := (render prec rassoc).
  Notation wfp := (wfp prec rassoc pprec).
  Notation rb := (rb prec rassoc).
  Notation needs_parens := (needs_parens prec rassoc).

  Lemma strip_render : forall t, strip (render t) = t.
  Proof.
    induction t as [a|op l IHl r IHr|op u IHu]; cbn [render strip]; [reflexivity| |].
    - f_equal.
      + destruct l as [|lop l1 l2|]; try exact IHl. destruct (needs_parens lop op false); cbn [strip]; exact IHl.
      + destruct r as [|rop r1 r2|]; try exact IHr. destruct (needs_parens rop op true); cbn [strip]; exact IHr.
    - f_equal. destruct u; cbn [strip]; exact IHu.
  Qed.

  Definition root_above (rbp : nat) (t : tree) : Prop := match t with Bin op _ _ => rbp < prec op | _ => True end.

  Lemma render_wf : forall t rbp, root_above rbp t -> wfp rbp (render t).
  Proof.
    induction t as [a|op l IHl r IHr|op u IHu]; intros rbp Hroot; cbn [render Printer.wfp].
    - exact I.
    - cbn in Hroot. split; [exact Hroot|]. split; [|split].
      + destruct l as [|lop l1 l2|]; try (apply IHl; exact I).
        unfold Printer.needs_parens. destruct (Nat.ltb (prec lop) (prec op)) eqn:L; cbn [orb].
        * cbn [Printer.wfp]. apply IHl. cbn. apply prec_pos.
        * apply Nat.ltb_ge in L. destruct (Nat.eqb (prec lop) (prec op) && rassoc lop) eqn:E.
          -- cbn [Printer.wfp]. apply IHl. cbn. apply prec_pos.
          -- apply IHl. cbn. lia.
      + destruct r as [|rop r1 r2|]; try (apply IHr; exact I).
        unfold Printer.needs_parens. destruct (Nat.ltb (prec rop) (prec op)) eqn:L; cbn [orb].
        * cbn [Printer.wfp]. apply IHr. cbn. apply prec_pos.
        * apply Nat.ltb_ge in L. destruct (Nat.eqb (prec rop) (prec op)) eqn:E; cbn [andb].
          -- apply Nat.eqb_eq in E. destruct (rassoc op) eqn:A; cbn [negb].
             ++ apply IHr. cbn. unfold Pratt.rb. rewrite A. pose proof (prec_pos op). lia.
             ++ cbn [Printer.wfp]. apply IHr. cbn. apply prec_pos.
          -- apply Nat.eqb_neq in E. apply IHr. cbn. unfold Pratt.rb. destruct (rassoc op); lia.
      + destruct l as [|lop l1 l2|]; try exact I.
        unfold Printer.needs_parens. destruct (Nat.ltb (prec lop) (prec op)) eqn:L; cbn [orb]; [exact I|].
        apply Nat.ltb_ge in L. destruct (Nat.eqb (prec lop) (prec op)) eqn:E; cbn [andb].
        * apply Nat.eqb_eq in E. destruct (rassoc lop) eqn:A; [exact I|]. cbn [Printer.render]. unfold Pratt.rb. rewrite A. lia.
        * apply Nat.eqb_neq in E. cbn [Printer.render]. unfold Pratt.rb. destruct (rassoc lop); lia.
    - destruct u as [a| |]; cbn [Printer.wfp render]; [exact I| |].
      + apply (IHu 0). cbn. apply prec_pos.
      + apply (IHu 0). exact I.
  Qed.

  Theorem render_roundtrip_structure t : wfp 0 (render t) /\ strip (render t) = t.
  Proof.
    split; [apply render_wf; destruct t; cbn; auto|apply strip_render].
  Qed.
End T.

(* two tables that compare every pair of operators alike print alike *)
Lemma needs_parens_ext (p1 p2 : binop -> nat) (r1 r2 : binop -> bool) :
  (forall a b, Nat.ltb (p1 a) (p1 b) = Nat.ltb (p2 a) (p2 b)) ->
  (forall a b, Nat.eqb (p1 a) (p1 b) = Nat.eqb (p2 a) (p2 b)) ->
  (forall a, r1 a = r2 a) ->
  forall c p s, needs_parens p1 r1 c p s = needs_parens p2 r2 c p s.
Proof. intros L E R c p s. unfold needs_parens. rewrite L, E, !R. reflexivity. Qed.

Lemma render_ext (p1 p2 : binop -> nat) (r1 r2 : binop -> bool) :
  (forall c p s, needs_parens p1 r1 c p s = needs_parens p2 r2 c p s) ->
  forall t, render p1 r1 t = render p2 r2 t.
Proof.
  intros N. induction t as [a|op l IHl r IHr|op u IHu]; cbn [render]; [reflexivity| |].
  - f_equal.
    + destruct l as [|lop l1 l2|]; try exact IHl. rewrite N. destruct (needs_parens p2 r2 lop op false); rewrite IHl; reflexivity.
    + destruct r as [|rop r1' r2'|]; try exact IHr. rewrite N. destruct (needs_parens p2 r2 rop op true); rewrite IHr; reflexivity.
  - f_equal. destruct u; rewrite IHu; reflexivity.
Qed.
