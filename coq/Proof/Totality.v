(* C18: the loops whose termination is not structural stop because of their step counters, and checked integer
   arithmetic never leaves the machine range.
   - bound propagation (bounds.rs propagate_affine_constraints): at most max_steps constraint visits; the fuel of the
     model is never what stops it
   - the tableau simplex (Tableau::solve): at most `limit` pivots
   - Primitive::apply_*_op on integers: a result is always inside i64 / u64 (no silent wrap, no overflow panic) *)
From Coq Require Import QArith ZArith Bool List String Lia.
From Rooc Require Import Base.XQ Model.Exp Model.Bounds Model.Tableau Model.Types.
Import ListNotations.
Local Close Scope Q_scope.

(* ---------- bound propagation *)
Lemma propagate_fuel_irrelevant cs forms names max_steps :
  forall f1 f2 steps queue queued a,
    max_steps - steps + 1 <= f1 -> max_steps - steps + 1 <= f2 ->
    propagate_loop f1 cs forms names max_steps steps queue queued a =
    propagate_loop f2 cs forms names max_steps steps queue queued a.
Proof.
  induction f1 as [|f1 IH]; intros f2 steps queue queued a H1 H2; [lia|].
  destruct f2 as [|f2]; [lia|]. cbn [propagate_loop].
  destruct queue as [|index queue]; [reflexivity|].
  destruct (Nat.leb max_steps steps) eqn:L; [reflexivity|]. apply Nat.leb_gt in L.
  destruct (match nth index forms None with Some f => tighten_affine_form a f (c_cmp (nth index cs _)) | None => _ end) as [a' changed].
  destruct (a_infeasible a'); [reflexivity|].
  destruct (fold_left _ changed (queue, set_nth_bool queued index false)) as [q' qd'].
  apply IH; lia.
Qed.

(* analyze_with gives the loop max_steps + 2 units of fuel: any larger amount gives the same analysis *)
Theorem analysis_terminates_by_step_limit ties dom cs max_steps extra :
  let a := from_domain_t ties dom in
  let forms := map af_from_constraint cs in
  let names := map (fun p => constraint_names (fst p) (snd p)) (combine cs forms) in
  let n := List.length cs in
  propagate_loop (S (S max_steps) + extra) cs forms names max_steps O (seq O n) (repeat true n) a =
  analyze_with_t ties dom cs max_steps.
Proof.
  cbv zeta. unfold analyze_with_t. apply propagate_fuel_irrelevant; lia.
Qed.

(* ---------- tableau simplex *)
Lemma solve_fuel_irrelevant avoid limit :
  forall f1 f2 t iteration stalls last trace,
    limit - iteration + 1 <= f1 -> limit - iteration + 1 <= f2 ->
    solve_loop f1 t avoid limit iteration stalls last trace = solve_loop f2 t avoid limit iteration stalls last trace.
Proof.
  induction f1 as [|f1 IH]; intros f2 t iteration stalls last trace H1 H2; [lia|].
  destruct f2 as [|f2]; [lia|]. cbn [solve_loop].
  destruct (Nat.leb limit iteration) eqn:L; [reflexivity|]. apply Nat.leb_gt in L.
  destruct (step_inner t avoid _) as [t' h tr| |]; try reflexivity.
  destruct (Standardize.f_eq (t_value t') last); apply IH; lia.
Qed.
Theorem simplex_terminates_by_iteration_limit t limit avoid extra :
  solve_loop (S limit + extra) t avoid limit O O (t_value t) [] = solve_avoiding t limit avoid.
Proof. unfold solve_avoiding. apply solve_fuel_irrelevant; lia. Qed.

(* ---------- checked integer arithmetic *)
Local Open Scope Z_scope.
Definition in_range (v : value) : Prop :=
  match v with VInt z => i64_min <= z <= i64_max | VPos n => 0 <= n <= u64_max | _ => True end.

Lemma chk_i64_range z v : chk_i64 z = inl v -> in_range v.
Proof. unfold chk_i64. destruct (_ && _) eqn:E; [|discriminate]. intros H; inversion H; subst v. cbn. apply andb_prop in E as [A B]. apply Z.leb_le in A, B. lia. Qed.
Lemma chk_u64_range z v : chk_u64 z = inl v -> in_range v.
Proof. unfold chk_u64. destruct (_ && _) eqn:E; [|discriminate]. intros H; inversion H; subst v. cbn. apply andb_prop in E as [A B]. apply Z.leb_le in A, B. lia. Qed.
Lemma chk_div_range a b v : chk_div a b = inl v -> in_range v.
Proof. unfold chk_div. destruct (Qeq_bool b 0); [discriminate|]. intros H; inversion H; subst v. exact I. Qed.
Lemma num_bin_range a op b v : num_bin a op b = inl v -> in_range v.
Proof. destruct op; cbn; intros H; try discriminate; try (inversion H; subst v; exact I). exact (chk_div_range _ _ _ H). Qed.
Lemma int_arith_range a op b v : int_arith a op b = inl v -> in_range v.
Proof. destruct op; cbn; intros H; try discriminate; try exact (chk_i64_range _ _ H). exact (chk_div_range _ _ _ H). Qed.
Lemma f64_bin_range a op w v : f64_bin a op w = inl v -> in_range v.
Proof. destruct w; cbn; intros H; try discriminate; exact (num_bin_range _ _ _ _ H). Qed.

Theorem integer_results_stay_in_range v op w r : apply_bin v op w = inl r -> in_range r.
Proof.
  destruct v as [a|a|a|a|a|k|]; cbn [apply_bin]; intros H; try discriminate.
  - exact (f64_bin_range _ _ _ _ H).
  - destruct w as [b|b|b|b|b|k'|]; try discriminate; try exact (int_arith_range _ _ _ _ H); try exact (num_bin_range _ _ _ _ H).
    destruct op; try exact (int_arith_range _ _ _ _ H). exact (chk_div_range _ _ _ H).
  - destruct w as [b|b|b|b|b|k'|]; try discriminate; try exact (num_bin_range _ _ _ _ H).
    + destruct op; try exact (int_arith_range _ _ _ _ H). exact (chk_div_range _ _ _ H).
    + destruct op; try discriminate; try exact (chk_u64_range _ _ H); try exact (chk_i64_range _ _ H). exact (chk_div_range _ _ _ H).
    + destruct op; try discriminate; try exact (chk_u64_range _ _ H); try exact (chk_i64_range _ _ H). exact (chk_div_range _ _ _ H).
  - destruct w; try discriminate. destruct op; try discriminate. inversion H; subst r. exact I.
  - destruct (is_arith op); [exact (f64_bin_range _ _ _ _ H)|]. destruct w; try discriminate. inversion H; subst r. exact I.
Qed.
Theorem negation_stays_in_range op v r : apply_un op v = inl r -> in_range r.
Proof.
  destruct v as [a|a|a|a|a|k|]; destruct op; cbn; intros H; try discriminate; try (inversion H; subst r; exact I); exact (chk_i64_range _ _ H).
Qed.
