(* C07: tighten_affine_form, the propagation work-list and analyze are sound:
   every assignment satisfying the declared domains and all constraints stays inside the box. *)
From Coq Require Import QArith Qreals Reals ZArith Bool List String Lra Lia.
From Rooc Require Import Base.XQ Model.Exp Model.Sem Model.Bounds Model.Spec
  Proof.XQFacts Proof.SemFacts Proof.ExpInd Proof.AListFacts Proof.IntervalSound Proof.BoundsOfSound
  Proof.TightenSound Proof.AffineSound.
Import ListNotations.
Local Close Scope Q_scope.
Local Open Scope R_scope.

Definition rsum (l : list R) : R := fold_right Rplus 0 l.

Section S.
  Variable rho : string -> R.

  Lemma b_scale_sound' a c x : fin c -> in_b a x -> in_b (b_scale a c) (cval c * x).
  Proof. intros Hc H. destruct (fin_inv _ Hc) as [q ->]. cbn [cval]. rewrite Rmult_comm. apply b_scale_sound. exact H. Qed.

  (* prefixes_from cur terms : element i contains  x + sum of the first i term values *)
  Lemma prefixes_sound terms : forall ts cur x i,
    Forall2 in_b terms ts -> in_b cur x ->
    in_b (nth i (prefixes_from cur terms) b_unbounded) (x + rsum (firstn i ts)).
  Proof.
    induction terms as [|t terms IH]; intros ts cur x i HF Hc; inversion HF; subst; cbn [prefixes_from].
    - destruct i as [|[|i]]; cbn; try (replace (x + 0) with x by lra; exact Hc); apply in_b_unbounded.
    - destruct i as [|i]; cbn [nth firstn rsum fold_right].
      + replace (x + 0) with x by lra. exact Hc.
      + replace (x + (y + fold_right Rplus 0 (firstn i l'))) with ((x + y) + rsum (firstn i l')) by (unfold rsum; lra).
        apply IH; [assumption|apply b_add_sound; assumption].
  Qed.

  Lemma suffixes_hd terms : forall ts, Forall2 in_b terms ts ->
    in_b (hd (b_singleton (Fin 0%Q)) (suffixes_of terms)) (rsum ts).
  Proof.
    induction terms as [|t terms IH]; intros ts HF; inversion HF; subst; cbn [suffixes_of hd rsum fold_right].
    - replace 0 with (Q2R 0%Q) by apply Q2R_0. apply in_b_singleton.
    - apply b_add_sound; [assumption|apply IH; assumption].
  Qed.

  Lemma suffixes_sound terms : forall ts i, Forall2 in_b terms ts ->
    in_b (nth i (suffixes_of terms) b_unbounded) (rsum (skipn i ts)).
  Proof.
    induction terms as [|t terms IH]; intros ts i HF; inversion HF; subst.
    - cbn [suffixes_of]. destruct i as [|[|i]]; cbn; try apply in_b_unbounded.
      replace 0 with (Q2R 0%Q) by apply Q2R_0. apply in_b_singleton.
    - destruct i as [|i].
      + cbn [nth skipn]. change (nth 0 (suffixes_of (t :: terms)) b_unbounded) with (hd b_unbounded (suffixes_of (t :: terms))).
        cbn [suffixes_of hd]. cbn [rsum fold_right]. apply b_add_sound; [assumption|apply suffixes_hd; assumption].
      + cbn [suffixes_of nth skipn]. apply IH. assumption.
  Qed.

  Lemma rsum_split (ts : list R) d : forall i, (i < List.length ts)%nat ->
    rsum ts = rsum (firstn i ts) + nth i ts d + rsum (skipn (S i) ts).
  Proof.
    induction ts as [|t ts IH]; intros i Hi; cbn [List.length] in Hi; [lia|].
    destruct i as [|i].
    - cbn. lra.
    - assert (Hi' : (i < List.length ts)%nat) by lia. specialize (IH i Hi').
      change (skipn (S (S i)) (t :: ts)) with (skipn (S i) ts).
      unfold rsum in *. cbn [firstn nth fold_right]. lra.
  Qed.

  Lemma nth_error_nth {A} (l : list A) i x d : nth_error l i = Some x -> nth i l d = x /\ (i < List.length l)%nat.
  Proof.
    revert i. induction l as [|y l IH]; intros [|i] H; cbn in *; try discriminate.
    - inversion H; split; [reflexivity|lia].
    - destruct (IH _ H). split; [assumption|lia].
  Qed.

  (* bounds.rs:472-517 *)
  Theorem tighten_affine_form_sound a f c total :
    box_sound a rho -> af_fin f -> af_val rho f = total -> in_b (required_bounds c) total ->
    box_sound (fst (tighten_affine_form a f c)) rho.
  Proof.
    intros Hbox [Hfin Hconst] Hval Hreq. unfold tighten_affine_form.
    set (terms := map (fun p : string * xq => b_scale (a_get a (fst p)) (snd p)) (af_coeffs f)).
    set (ts := map (fun p : string * xq => cval (snd p) * rho (fst p)) (af_coeffs f)).
    assert (HT : Forall2 in_b terms ts).
    { subst terms ts. clear Hval. induction (af_coeffs f) as [|[n x] l IH]; cbn [map]; constructor.
      - inversion Hfin; subst. apply b_scale_sound'; [assumption|apply Hbox].
      - inversion Hfin; subst. apply IH. assumption. }
    assert (Hsum : cs_val rho (af_coeffs f) = rsum ts).
    { subst ts. clear. induction (af_coeffs f) as [|[n x] l IH]; cbn; [reflexivity|]. unfold rsum in IH. rewrite IH. reflexivity. }
    destruct (fin_inv _ Hconst) as [k Ek].
    assert (Hk : in_b (b_singleton (af_const f)) (Q2R k)) by (rewrite Ek; apply in_b_singleton).
    set (prefixes := prefixes_from (b_singleton (af_const f)) terms).
    set (suffixes := suffixes_of terms).
    (* the candidate computed for position i contains rho of that name *)
    assert (Hcand : forall i name coef, nth_error (af_coeffs f) i = Some (name, coef) ->
      in_b (b_div_by (b_sub (required_bounds c) (b_add (nth i prefixes b_unbounded) (nth (S i) suffixes b_unbounded))) coef) (rho name)).
    { intros i name coef Hn.
      assert (Fc : fin coef).
      { apply nth_error_In in Hn. unfold cs_fin in Hfin. rewrite Forall_forall in Hfin. exact (Hfin _ Hn). }
      destruct (fin_inv _ Fc) as [q ->].
      pose proof (prefixes_sound terms ts _ _ i HT Hk) as P.
      pose proof (suffixes_sound terms ts (S i) HT) as Sx.
      fold prefixes in P. fold suffixes in Sx.
      pose proof (b_add_sound _ _ _ _ P Sx) as O.
      pose proof (b_sub_sound _ _ _ _ Hreq O) as C.
      assert (Hts : nth i ts 0 = Q2R q * rho name /\ (i < List.length ts)%nat).
      { subst ts. apply nth_error_nth. rewrite nth_error_map, Hn. reflexivity. }
      destruct Hts as [Hti Hlen].
      assert (Htot : total = Q2R k + rsum ts).
      { rewrite <- Hval. unfold af_val. rewrite Hsum, Ek. cbn [cval]. lra. }
      pose proof (rsum_split ts 0 i Hlen) as Sp. rewrite Hti in Sp.
      unfold b_div_by. destruct (xq_is_zero (Fin q)) eqn:Z; [apply in_b_unbounded|].
      apply xq_is_zero_Fin_false in Z.
      replace (rho name) with ((total - (Q2R k + rsum (firstn i ts) + rsum (skipn (S i) ts))) / Q2R q).
      - pose proof (b_div_by_sound _ q _ Z C) as D. unfold b_div_by in D.
        destruct (xq_is_zero (Fin q)) eqn:Z'; [apply xq_is_zero_Fin in Z'; contradiction|]. exact D.
      - rewrite Htot, Sp. field. exact Z. }
    (* the inner loop *)
    assert (Hgo : forall cs i a0 ch, box_sound a0 rho -> skipn i (af_coeffs f) = cs ->
      box_sound (fst ((fix go (i : nat) (cs : list (string * xq)) (a : astate) (changed : list string) {struct cs} : astate * list string :=
        match cs with
        | [] => (a, changed)
        | (name, coef) :: rest =>
            let others := b_add (nth i prefixes b_unbounded) (nth (S i) suffixes b_unbounded) in
            let cand := b_div_by (b_sub (required_bounds c) others) coef in
            let (a', ch) := tighten_variable a name cand in
            let changed' := if ch then set_add changed name else changed in
            if a_infeasible a' then (a', changed') else go (S i) rest a' changed'
        end) i cs a0 ch)) rho).
    { induction cs as [|[name coef] rest IH]; intros i a0 ch Ha0 Hsk; [exact Ha0|].
      assert (Hn : nth_error (af_coeffs f) i = Some (name, coef)).
      { clear -Hsk. revert i Hsk. induction (af_coeffs f) as [|x l IHl]; intros [|i] H; cbn in *; try discriminate.
        - inversion H; reflexivity.
        - apply IHl. exact H. }
      pose proof (tighten_variable_sound a0 rho name _ Ha0 (Hcand i name coef Hn)) as T.
      cbv zeta. destruct (tighten_variable a0 name _) as [a' chg]. cbn [fst] in T.
      destruct (a_infeasible a'); [exact T|].
      apply IH; [exact T|].
      clear -Hsk. revert i Hsk. induction (af_coeffs f) as [|x l IHl]; intros [|i] H; cbn in *; try discriminate.
      - inversion H; reflexivity.
      - apply IHl. exact H. }
    specialize (Hgo (af_coeffs f) O a [] Hbox eq_refl).
    match goal with |- context [let (a1, changed) := ?g in _] => destruct g as [a1 changed] end.
    cbn [fst] in Hgo.
    destruct (b_intersection (a_ties a1) (a_tol a1) (last prefixes b_unbounded) (required_bounds c)); cbn [fst];
      [exact Hgo|apply box_sound_mark_infeasible; exact Hgo].
  Qed.

  (* ---------- the work-list *)
  Variable cs : list constr.
  Hypothesis Hsat : forall c, In c cs -> sat_constr rho c.

  Lemma propagate_loop_sound : forall fuel forms names max_steps steps queue queued a,
    forms = map af_from_constraint cs ->
    box_sound a rho ->
    box_sound (propagate_loop fuel cs forms names max_steps steps queue queued a) rho.
  Proof.
    induction fuel as [|fuel IH]; intros forms names max_steps steps queue queued a Hforms Hbox; cbn [propagate_loop].
    - apply box_sound_mark_limit. exact Hbox.
    - destruct queue as [|index queue]; [exact Hbox|].
      destruct (Nat.leb max_steps steps); [apply box_sound_mark_limit; exact Hbox|].
      set (dflt := mkConstr "" (Num (Fin 0%Q)) Eq (Num (Fin 0%Q)) false).
      assert (Hstep : box_sound (fst (match nth index forms None with
                                      | Some f => tighten_affine_form a f (c_cmp (nth index cs dflt))
                                      | None => tighten_constraint_expression a (nth index cs dflt) (required_bounds (c_cmp (nth index cs dflt)))
                                      end)) rho).
      { destruct (Nat.lt_ge_cases index (List.length cs)) as [Hlt|Hge].
        - pose proof (nth_In cs dflt Hlt) as Hin. specialize (Hsat _ Hin).
          destruct (nth index forms None) as [f|] eqn:Ef.
          + destruct Hsat as [l [r [El [Er Hc]]]].
            assert (Hf : af_from_constraint (nth index cs dflt) = Some f).
            { subst forms. rewrite <- Ef.
              rewrite (nth_indep _ None (af_from_constraint dflt)) by (rewrite map_length; exact Hlt).
              rewrite map_nth. reflexivity. }
            destruct (af_from_constraint_sound rho _ _ _ _ Hf El Er) as [F V].
            apply (tighten_affine_form_sound a f _ (l - r) Hbox F V). apply required_bounds_sound. exact Hc.
          + apply tighten_constraint_expression_sound; assumption.
        - (* index out of range: the default constraint 0 = 0 is trivially satisfied *)
          rewrite (nth_overflow cs dflt Hge).
          assert (Hd : sat_constr rho dflt).
          { exists 0, 0. cbn. rewrite Q2R_0. repeat split; reflexivity. }
          destruct (nth index forms None) as [f|] eqn:Ef.
          + destruct Hd as [l [r [El [Er Hc]]]].
            assert (Hlen : (List.length forms <= index)%nat) by (subst forms; rewrite map_length; exact Hge).
            rewrite (nth_overflow forms None Hlen) in Ef. discriminate.
          + apply tighten_constraint_expression_sound; assumption. }
      destruct (match nth index forms None with
                | Some f => tighten_affine_form a f (c_cmp (nth index cs dflt))
                | None => tighten_constraint_expression a (nth index cs dflt) (required_bounds (c_cmp (nth index cs dflt)))
                end) as [a' changed]. cbn [fst] in Hstep.
      destruct (a_infeasible a'); [exact Hstep|].
      match goal with |- context [let '(q', qd') := ?g in _] => destruct g as [q' qd'] end.
      apply IH; assumption.
  Qed.
End S.

Lemma in_b_of_vtype t v : in_dom t v -> in_b (b_of_vtype t) v.
Proof.
  destruct t; cbn.
  - apply in_b01.
  - intros [z [-> [H1 H2]]]. split; cbn; unfold Q2R; cbn; rewrite Rinv_1, Rmult_1_r; apply IZR_le; assumption.
  - intros [_ [H1 H2]]. split; assumption.
  - intros [H1 H2]. split; assumption.
Qed.

Lemma from_domain_sound dom rho : in_domains dom rho -> box_sound (from_domain dom) rho.
Proof.
  intros H n. unfold a_get, from_domain; cbn [a_vb].
  induction dom as [|[k t] r IH]; cbn; [apply in_b_unbounded|].
  destruct (String.eqb n k) eqn:E.
  - apply String.eqb_eq in E; subst k. apply in_b_of_vtype. apply (H n t). left; reflexivity.
  - apply IH. intros m t' Hin. apply (H m t'). right; exact Hin.
Qed.

(* the analyser's box contains every assignment satisfying the declared domains and all constraints -
   for infeasible models (vacuously), when propagation stops at its step limit, and when it freezes on a
   detected contradiction: no case distinction is needed because every step preserves the invariant *)
Theorem analyze_with_sound dom cs max_steps rho :
  feasible dom cs rho -> box_sound (analyze_with dom cs max_steps) rho.
Proof.
  intros [Hd Hc]. unfold analyze_with. apply propagate_loop_sound; [exact Hc|reflexivity|].
  apply from_domain_sound. exact Hd.
Qed.

Theorem analyze_sound dom cs rho : feasible dom cs rho -> box_sound (analyze dom cs) rho.
Proof. apply analyze_with_sound. Qed.

(* every fact the rewrites read off the analyser is true of every feasible point *)
Theorem relied_bounds_sound dom cs rho e v :
  feasible dom cs rho -> ev rho e = Some v -> in_b (bounds_of (analyze dom cs) e) v.
Proof. intros F H. apply (bounds_of_sound _ rho); [apply analyze_sound; exact F|exact H]. Qed.
