(* C02 / C03: what the end-to-end theorem of Proof/CompileAbs.v says about the three answers a solver can give.  On the
   fragment of abs_model (arithmetic, abs, min, max, affine logic assertions, normalised comparisons) the compiled linear
   model and the source model are feasible together, unbounded together, and have the same optimal value, each optimal
   point of one giving an optimal point of the other that agrees with it on the declared variables. *)
From Coq Require Import QArith Reals List String Lra.
From Rooc Require Import Base.XQ Model.Exp Model.Sem Model.Bounds Model.Linearize Model.Spec
  Proof.PublishedCompile Proof.LinAffine Proof.CompileAffine Proof.CompileAbs.
Import ListNotations.
Local Close Scope Q_scope.
Local Open Scope R_scope.

(* feasible together *)
Corollary compile_abs_feasible_iff m L : abs_model m -> compile m = inr L ->
  ((exists rho, sat_model m rho) <-> (exists sigma, sat_linear L sigma)).
Proof.
  intros BM HC. destruct (compile_abs_equiv m L BM HC) as [A B]. split.
  - intros [rho SM]. destruct (plainA_total rho _ (bm_obj m BM)) as [v [_ Ev]].
    destruct (B rho v SM Ev) as [sigma [_ [SL _]]]. exists sigma. exact SL.
  - intros [sigma SL]. destruct (A sigma SL) as [sg [_ [SM _]]]. exists sg. exact SM.
Qed.

(* an optimal point of the source gives an optimal point of the compiled model with the same value *)
Corollary compile_abs_optimum_rev m L rho v : abs_model m -> compile m = inr L ->
  sat_model m rho -> ev rho (m_obj m) = Some v ->
  (forall rho' w, sat_model m rho' -> ev rho' (m_obj m) = Some w -> better (m_dir m) v w) ->
  exists sigma, agree_on (map fst (m_domain m)) rho sigma /\ sat_linear L sigma /\ lin_objective L sigma = v /\
    forall tau, sat_linear L tau -> better (m_dir m) v (lin_objective L tau).
Proof.
  intros BM HC SM Ev Opt. destruct (compile_abs_equiv m L BM HC) as [A B].
  destruct (B rho v SM Ev) as [sigma [Ag [SL Vs]]]. exists sigma. split; [exact Ag|]. split; [exact SL|]. split; [exact Vs|].
  intros tau SLt. destruct (A tau SLt) as [tg [_ [SMt Hrel]]]. destruct (plainA_total tg _ (bm_obj m BM)) as [w [_ Ew]].
  pose proof (Hrel w Ew) as R1. pose proof (Opt tg w SMt Ew) as R2.
  destruct (m_dir m); cbn in *; try lra; exact I.
Qed.

(* the optimal values coincide: v is the optimal value of the source iff it is the optimal value of the compiled model *)
Definition src_optimum (m : model) (v : R) : Prop :=
  (exists rho, sat_model m rho /\ ev rho (m_obj m) = Some v) /\
  forall rho w, sat_model m rho -> ev rho (m_obj m) = Some w -> better (m_dir m) v w.
Definition lin_optimum (d : direction) (L : linmodel) (v : R) : Prop :=
  (exists sigma, sat_linear L sigma /\ lin_objective L sigma = v) /\
  forall tau, sat_linear L tau -> better d v (lin_objective L tau).
Corollary compile_abs_optimal_value m L v : abs_model m -> compile m = inr L -> m_dir m <> DSatisfy ->
  (src_optimum m v <-> lin_optimum (m_dir m) L v).
Proof.
  intros BM HC ND. split.
  - intros [[rho [SM Ev]] Opt]. destruct (compile_abs_optimum_rev m L rho v BM HC SM Ev Opt) as [sigma [_ [SL [Vs Best]]]].
    split; [exists sigma; split; assumption|exact Best].
  - intros [[sigma [SL Vs]] Best]. subst v.
    destruct (compile_abs_optimum m L sigma BM HC SL Best ND) as [sg [_ [SM [Ev Opt]]]].
    split; [exists sg; split; assumption|exact Opt].
Qed.

(* unbounded together: values better than any given number are reached in one iff they are reached in the other *)
Definition strictly_better (d : direction) (a b : R) : Prop :=
  match d with DMin => a < b | DMax => a > b | DSatisfy => False end.
Definition src_unbounded (m : model) : Prop :=
  forall K, exists rho w, sat_model m rho /\ ev rho (m_obj m) = Some w /\ strictly_better (m_dir m) w K.
Definition lin_unbounded (d : direction) (L : linmodel) : Prop :=
  forall K, exists sigma, sat_linear L sigma /\ strictly_better d (lin_objective L sigma) K.
Corollary compile_abs_unbounded_iff m L : abs_model m -> compile m = inr L ->
  (src_unbounded m <-> lin_unbounded (m_dir m) L).
Proof.
  intros BM HC. destruct (compile_abs_equiv m L BM HC) as [A B]. split.
  - intros U K. destruct (U K) as [rho [w [SM [Ew Hb]]]]. destruct (B rho w SM Ew) as [sigma [_ [SL Vs]]].
    exists sigma. split; [exact SL|]. rewrite Vs. exact Hb.
  - intros U K. destruct (U K) as [sigma [SL Hb]]. destruct (A sigma SL) as [sg [_ [SM Hrel]]].
    destruct (plainA_total sg _ (bm_obj m BM)) as [w [_ Ew]]. exists sg, w. split; [exact SM|]. split; [exact Ew|].
    pose proof (Hrel w Ew) as R1. destruct (m_dir m); cbn in *; try lra; exact Hb.
Qed.

(* ---- the same on the affine fragment, where the two feasible sets are equal and the objectives agree pointwise *)
Corollary compile_affine_feasible_iff m L : affine_model m -> compile m = inr L ->
  ((exists rho, sat_model m rho) <-> (exists sigma, sat_linear L sigma)).
Proof.
  intros AM HC. destruct (compile_affine_equiv m L AM HC) as [Eq _].
  split; intros [rho H]; exists rho; apply Eq; exact H.
Qed.
Corollary compile_affine_unbounded_iff m L : affine_model m -> compile m = inr L ->
  (src_unbounded m <-> lin_unbounded (m_dir m) L).
Proof.
  intros AM HC. destruct (compile_affine_equiv m L AM HC) as [Eq Ob]. split.
  - intros U K. destruct (U K) as [rho [w [SM [Ew Hb]]]]. exists rho. split; [apply Eq; exact SM|]. rewrite (Ob rho w Ew). exact Hb.
  - intros U K. destruct (U K) as [sigma [SL Hb]]. destruct (plain_total sigma _ (am_plain_o m AM)) as [w [_ Ew]].
    exists sigma, w. split; [apply Eq; exact SL|]. split; [exact Ew|]. rewrite <- (Ob sigma w Ew). exact Hb.
Qed.
Corollary compile_affine_optimal_value m L v : affine_model m -> compile m = inr L ->
  (src_optimum m v <-> lin_optimum (m_dir m) L v).
Proof.
  intros AM HC. destruct (compile_affine_equiv m L AM HC) as [Eq Ob]. split.
  - intros [[rho [SM Ev]] Opt]. split; [exists rho; split; [apply Eq; exact SM|exact (Ob rho v Ev)]|].
    intros tau SLt. destruct (plain_total tau _ (am_plain_o m AM)) as [w [_ Ew]]. rewrite (Ob tau w Ew). apply (Opt tau w); [apply Eq; exact SLt|exact Ew].
  - intros [[sigma [SL Vs]] Best]. destruct (plain_total sigma _ (am_plain_o m AM)) as [w [_ Ew]].
    assert (w = v) by (rewrite <- (Ob sigma w Ew); exact Vs). subst w.
    split; [exists sigma; split; [apply Eq; exact SL|exact Ew]|].
    intros rho w SM Ew'. rewrite <- (Ob rho w Ew'). apply Best. apply Eq. exact SM.
Qed.
