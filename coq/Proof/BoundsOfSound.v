(* C07: every range derived for a sub-expression contains its value at every assignment inside the box. *)
From Coq Require Import QArith Qreals Reals ZArith Bool List String Lra Lia.
From Rooc Require Import Base.XQ Model.Exp Model.Sem Model.Bounds Model.Spec
  Proof.XQFacts Proof.SemFacts Proof.ExpInd Proof.IntervalSound.
Import ListNotations.
Local Close Scope Q_scope.
Local Open Scope R_scope.

Lemma bnR_01 b : bnR b = 0 \/ bnR b = 1.
Proof. destruct b; cbn; auto. Qed.

Section S.
  Variable a : astate.
  Variable rho : string -> R.
  Hypothesis Hbox : box_sound a rho.
  Notation ev := (evg rho false).

  Lemma fold_min_sound l : forall vs cur c,
    Forall (fun e => forall v, ev e = Some v -> in_b (bounds_of a e) v) l ->
    evlist rho false l = Some vs -> in_b cur c ->
    in_b (fold_left (fun cur nx => let b := bounds_of a nx in mkB (xq_min (lo cur) (lo b)) (xq_min (hi cur) (hi b))) l cur)
         (fold_left Rmin vs c).
  Proof.
    induction l as [|e l IH]; intros vs cur c HF Hl Hc; cbn [evlist] in Hl.
    - inversion Hl; subst. exact Hc.
    - destruct (ev e) as [v|] eqn:Ee; [|discriminate].
      destruct (evlist rho false l) as [vs'|] eqn:El; [|discriminate]. inversion Hl; subst vs; clear Hl.
      inversion HF as [|? ? He HF']; subst. cbn [fold_left].
      apply IH; [exact HF'|reflexivity|].
      destruct Hc as [C1 C2]. destruct (He v Ee) as [B1 B2].
      split; cbn; [apply xq_min_lo|apply xq_min_hi]; assumption.
  Qed.
  Lemma fold_max_sound l : forall vs cur c,
    Forall (fun e => forall v, ev e = Some v -> in_b (bounds_of a e) v) l ->
    evlist rho false l = Some vs -> in_b cur c ->
    in_b (fold_left (fun cur nx => let b := bounds_of a nx in mkB (xq_max (lo cur) (lo b)) (xq_max (hi cur) (hi b))) l cur)
         (fold_left Rmax vs c).
  Proof.
    induction l as [|e l IH]; intros vs cur c HF Hl Hc; cbn [evlist] in Hl.
    - inversion Hl; subst. exact Hc.
    - destruct (ev e) as [v|] eqn:Ee; [|discriminate].
      destruct (evlist rho false l) as [vs'|] eqn:El; [|discriminate]. inversion Hl; subst vs; clear Hl.
      inversion HF as [|? ? He HF']; subst. cbn [fold_left].
      apply IH; [exact HF'|reflexivity|].
      destruct Hc as [C1 C2]. destruct (He v Ee) as [B1 B2].
      split; cbn; [apply xq_max_lo|apply xq_max_hi]; assumption.
  Qed.

  Theorem bounds_of_sound_ev : forall e v, ev e = Some v -> in_b (bounds_of a e) v.
  Proof.
    induction e using exp_ind'; intros v Hv.
    - (* Num *) apply evg_Num_inv in Hv as [q [-> ->]]. apply in_b_singleton.
    - (* Var *) cbn in Hv. inversion Hv; subst. apply Hbox.
    - (* Abs *) rewrite evg_Abs in Hv. destruct (ev e) as [w|] eqn:E; [|discriminate]. inversion Hv; subst.
      cbn [bounds_of]. apply b_abs_sound. apply IHe. reflexivity.
    - (* Min *) rewrite evg_Min in Hv. destruct (evlist rho false l) as [vs|] eqn:E; [|discriminate].
      destruct l as [|x l]; [cbn in E; inversion E; subst; discriminate|].
      cbn [evlist] in E. destruct (ev x) as [vx|] eqn:Ex; [|discriminate].
      destruct (evlist rho false l) as [vs'|] eqn:El; [|discriminate]. inversion E; subst vs; clear E.
      cbn [fold_min] in Hv. inversion Hv; subst v; clear Hv.
      inversion H as [|? ? Hx Hl]; subst. cbn [bounds_of].
      apply fold_min_sound; [exact Hl|exact El|apply Hx; exact Ex].
    - (* Max *) rewrite evg_Max in Hv. destruct (evlist rho false l) as [vs|] eqn:E; [|discriminate].
      destruct l as [|x l]; [cbn in E; inversion E; subst; discriminate|].
      cbn [evlist] in E. destruct (ev x) as [vx|] eqn:Ex; [|discriminate].
      destruct (evlist rho false l) as [vs'|] eqn:El; [|discriminate]. inversion E; subst vs; clear E.
      cbn [fold_max] in Hv. inversion Hv; subst v; clear Hv.
      inversion H as [|? ? Hx Hl]; subst. cbn [bounds_of].
      apply fold_max_sound; [exact Hl|exact El|apply Hx; exact Ex].
    - (* And *) rewrite evg_And in Hv. destruct (evlist_ok rho false l); [|discriminate].
      inversion Hv; subst. apply in_b01, bnR_01.
    - (* Or *) rewrite evg_Or in Hv. destruct (evlist_ok rho false l); [|discriminate].
      inversion Hv; subst. apply in_b01, bnR_01.
    - (* Not *) rewrite evg_Not in Hv. destruct (ev e); [|discriminate]. inversion Hv; subst. apply in_b01, bnR_01.
    - rewrite evg_Xor in Hv. destruct (ev e1); [|discriminate]. destruct (ev e2); [|discriminate].
      inversion Hv; subst. apply in_b01, bnR_01.
    - rewrite evg_Implies in Hv. destruct (ev e1); [|discriminate]. destruct (ev e2); [|discriminate].
      inversion Hv; subst. apply in_b01, bnR_01.
    - rewrite evg_Iff in Hv. destruct (ev e1); [|discriminate]. destruct (ev e2); [|discriminate].
      inversion Hv; subst. apply in_b01, bnR_01.
    - (* BinOp *)
      rewrite evg_BinOp in Hv. destruct (ev e1) as [x|] eqn:E1; [|discriminate].
      destruct (ev e2) as [y|] eqn:E2; [|discriminate].
      specialize (IHe1 x eq_refl). specialize (IHe2 y eq_refl).
      destruct op; cbn [operand_ok negb orb andb ev_binop] in Hv.
      + inversion Hv; subst. cbn [bounds_of]. apply b_add_sound; assumption.
      + inversion Hv; subst. cbn [bounds_of]. apply b_sub_sound; assumption.
      + inversion Hv; subst. cbn [bounds_of].
        destruct e1; try (destruct e2; cbn [bounds_of]; try apply in_b_unbounded;
                          apply evg_Num_inv in E2 as [q [-> ->]]; apply b_scale_sound; exact IHe1).
        apply evg_Num_inv in E1 as [q [-> ->]]. rewrite Rmult_comm. cbn [bounds_of]. apply b_scale_sound. exact IHe2.
      + destruct (Req_EM_T y 0) as [Z|NZ]; [discriminate|]. inversion Hv; subst. cbn [bounds_of].
        destruct e2; try apply in_b_unbounded.
        apply evg_Num_inv in E2 as [q [-> ->]].
        destruct (xq_is_zero (Fin q)) eqn:Zq; [apply in_b_unbounded|].
        apply b_div_by_sound; assumption.
      + inversion Hv; subst. apply in_b01, bnR_01.
      + inversion Hv; subst. apply in_b01, bnR_01.
      + inversion Hv; subst. apply in_b01, bnR_01.
      + inversion Hv; subst. apply in_b01, bnR_01.
      + inversion Hv; subst. apply in_b01, bnR_01.
    - (* UnOp *) destruct op.
      + rewrite evg_Neg in Hv. destruct (ev e) as [w|] eqn:E; [|discriminate]. inversion Hv; subst.
        cbn [bounds_of]. apply b_neg_sound. apply IHe. reflexivity.
      + rewrite evg_UNot in Hv. destruct (ev e); [|discriminate]. inversion Hv; subst. apply in_b01, bnR_01.
  Qed.
End S.

Theorem bounds_of_sound a rho e v :
  box_sound a rho -> ev rho e = Some v -> in_b (bounds_of a e) v.
Proof. intros H. unfold ev. apply bounds_of_sound_ev. exact H. Qed.
