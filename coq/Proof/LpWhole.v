(* C17: the independent reader inverts the writer on the WHOLE file, for every linear model whose names are
   admissible and whose bounds are not NaN. *)
From Coq Require Import QArith ZArith Bool List String Lia.
From Rooc Require Import Base.XQ Model.Exp Model.Bounds Model.Linearize Model.LpFormat Proof.LpRoundtrip.
Import ListNotations.
Local Close Scope Q_scope.
Local Open Scope list_scope.

(* ---------- generic equalities *)
Lemma Qeq_bool_refl q : Qeq_bool q q = true.
Proof. apply Qeq_bool_iff. reflexivity. Qed.
Lemma leqb_refl {A} (f : A -> A -> bool) : (forall x, f x x = true) -> forall l, leqb f l l = true.
Proof. intros R. induction l as [|x l IH]; [reflexivity|]. cbn [leqb]. rewrite R, IH. reflexivity. Qed.
Lemma leqb_app {A} (f : A -> A -> bool) : forall a a' b b', leqb f a a' = true -> leqb f b b' = true -> leqb f (a ++ b) (a' ++ b') = true.
Proof.
  induction a as [|x a IH]; intros a' b b' H1 H2; destruct a' as [|y a']; try discriminate H1; [exact H2|].
  cbn [leqb app] in *. apply andb_true_iff in H1 as [E H1]. rewrite E. cbn [andb]. apply IH; assumption.
Qed.
Lemma bnd_eqb_refl b : bnd_eqb b b = true.
Proof. destruct b as [n|q]; cbn; [destruct n; reflexivity|apply Qeq_bool_refl]. Qed.

(* ---------- a row / objective body followed by anything that starts with a relation, a sign or a line end *)
Definition starts_ok (tail : list ltok) : Prop :=
  match tail with
  | LWord w :: _ => (is_op w || is_sign w) = true
  | LNL :: _ => True
  | _ => False
  end.

Lemma read_body coeffs vars tail :
  Forall (fun v => name_ok v = true) vars -> starts_ok tail ->
  exists k0, (k0 == 0)%Q /\ exists terms, leqb term_eqb terms (nonzero_terms coeffs vars) = true /\
    forall f r, read_terms (S f) 1%Q tail terms k0 = Some r ->
      read_terms (S f + List.length (lp_terms coeffs vars) + 1) 1%Q (lp_terms coeffs vars ++ tail) [] 0%Q = Some r.
Proof.
  intros Hn St. unfold lp_terms. destruct (lp_terms_from true coeffs vars) as [toks empty] eqn:E. destruct empty.
  - pose proof (lp_terms_from_empty coeffs vars true) as Hem. rewrite E in Hem. destruct (Hem eq_refl) as [_ [Hs _]].
    exists (0 + 1 * 0)%Q. split; [ring|]. exists []. split.
    + pose proof (read_spec_denotes coeffs vars) as D. rewrite Hs in D. exact D.
    + intros f r H. cbn [List.length app]. replace (S f + 1 + 1) with (S (S (S f))) by lia.
      rewrite read_terms_S. destruct tail as [|[w|q|] rest]; cbn [starts_ok] in St; try contradiction.
      * rewrite St. apply read_terms_mono. exact H.
      * apply read_terms_mono. exact H.
  - exists 0%Q. split; [reflexivity|]. exists (read_spec coeffs vars). split; [apply read_spec_denotes|].
    intros f r H.
    pose proof (read_terms_written coeffs vars true tail [] 0%Q (S f) r Hn H) as G. rewrite E in G. cbn [fst] in G.
    cbv iota beta. apply (read_terms_mono_le (S f + List.length toks)); [lia|exact G].
Qed.

(* ---------- the objective line *)
Definition off_part (off : Q) : list ltok :=
  if q_is_zero off then [] else [LWord (if q_is_neg off then "-" else "+")%string; LNum (q_absv off)].

Lemma signed_abs off : ((if q_is_neg off then (-1)%Q else 1%Q) * q_absv off == off)%Q.
Proof. unfold q_absv. destruct (q_is_neg off); ring. Qed.

Lemma read_objective coeffs vars off rest :
  Forall (fun v => name_ok v = true) vars ->
  exists terms c,
    read_terms (List.length (lp_terms coeffs vars ++ off_part off ++ LNL :: rest) + 1) 1%Q (lp_terms coeffs vars ++ off_part off ++ LNL :: rest) [] 0%Q
      = Some (terms, c, LNL :: rest)
    /\ leqb term_eqb terms (nonzero_terms coeffs vars) = true /\ Qeq_bool c off = true.
Proof.
  intros Hn. set (tail := off_part off ++ LNL :: rest).
  assert (St : starts_ok tail).
  { unfold tail, off_part. destruct (q_is_zero off); [exact I|]. cbn [app starts_ok]. destruct (q_is_neg off); reflexivity. }
  destruct (read_body coeffs vars tail Hn St) as [k0 [K0 [terms [Ht Hread]]]].
  assert (T : exists c, (c == off)%Q /\ read_terms (S (List.length (off_part off))) 1%Q tail terms k0 = Some (terms, c, LNL :: rest)).
  { unfold tail, off_part. destruct (q_is_zero off) eqn:Z.
    - exists k0. split; [unfold q_is_zero in Z; apply Qeq_bool_iff in Z; rewrite K0, Z; reflexivity|]. reflexivity.
    - cbn [app]. destruct (q_is_neg off) eqn:Ng.
      + exists (k0 + -1 * q_absv off)%Q. split; [pose proof (signed_abs off) as S; rewrite Ng in S; rewrite K0, S; ring|]. reflexivity.
      + exists (k0 + 1 * q_absv off)%Q. split; [pose proof (signed_abs off) as S; rewrite Ng in S; rewrite K0, S; ring|]. reflexivity. }
  destruct T as [c [Ec T]]. exists terms, c. split; [|split; [exact Ht|apply Qeq_bool_iff; exact Ec]].
  apply (read_terms_mono_le (S (List.length (off_part off)) + List.length (lp_terms coeffs vars) + 1)).
  - rewrite app_length. unfold tail. rewrite app_length. cbn [List.length]. lia.
  - apply (Hread (List.length (off_part off))). exact T.
Qed.

(* ---------- the constraint section *)
Definition row_toks (vars : list string) (p : string * lrow) : list ltok :=
  [LWord (fst p); LWord ":"%string] ++ lp_terms (lr_coeffs (snd p)) vars ++ [LWord (cmp_word (lr_cmp (snd p))); LNum (qv (lr_rhs (snd p))); LNL].
Definition row_den (vars : list string) (p : string * lrow) : lprow :=
  mkLpRow (fst p) (nonzero_terms (lr_coeffs (snd p)) vars) (cmp_word (lr_cmp (snd p))) (qv (lr_rhs (snd p))).

Lemma read_rows_row f name rest acc terms c op rhs rest' :
  read_terms (List.length rest + 1) 1%Q rest [] 0%Q = Some (terms, c, LWord op :: LNum rhs :: LNL :: rest') -> is_op op = true ->
  read_rows (S f) (LWord name :: LWord ":"%string :: rest) acc = read_rows f rest' (acc ++ [mkLpRow name terms op (rhs - c)%Q]).
Proof. intros H O. cbn [read_rows]. rewrite H, O. reflexivity. Qed.
Lemma read_rows_stop f w rest acc : is_section w = true ->
  read_rows (S f) (LWord w :: LNL :: rest) acc = Some (acc, LWord w :: LNL :: rest).
Proof. intros H. cbn [read_rows]. rewrite H. reflexivity. Qed.

Lemma lprow_eqb_written n terms nz op rhs k :
  leqb term_eqb terms nz = true -> Qeq_bool k 0 = true -> lprow_eqb (mkLpRow n terms op (rhs - k)%Q) (mkLpRow n nz op rhs) = true.
Proof.
  intros H K. unfold lprow_eqb. cbn [pr_name pr_terms pr_op pr_rhs]. rewrite !String.eqb_refl, H. cbn [andb].
  apply Qeq_bool_iff. apply Qeq_bool_iff in K. rewrite K. ring.
Qed.

Lemma read_rows_written vars w r : Forall (fun v => name_ok v = true) vars -> is_section w = true ->
  forall (prs : list (string * lrow)) acc fuel, List.length (flat_map (row_toks vars) prs) < fuel ->
  exists rows', read_rows fuel (flat_map (row_toks vars) prs ++ LWord w :: LNL :: r) acc = Some (acc ++ rows', LWord w :: LNL :: r)
    /\ leqb lprow_eqb rows' (map (row_den vars) prs) = true.
Proof.
  intros Hn Hw. induction prs as [|p prs IH]; intros acc fuel Lf.
  - destruct fuel as [|f]; [lia|]. exists []. rewrite app_nil_r. cbn [flat_map app]. split; [apply read_rows_stop; exact Hw|reflexivity].
  - destruct fuel as [|f]; [lia|]. cbn [flat_map]. unfold row_toks at 1. rewrite <- !app_assoc. cbn [app].
    set (R := flat_map (row_toks vars) prs ++ LWord w :: LNL :: r).
    destruct (row_body_roundtrip (lr_coeffs (snd p)) vars (lr_cmp (snd p)) (qv (lr_rhs (snd p))) R Hn) as [terms [k [Hr [Ht Hk]]]].
    rewrite (read_rows_row f (fst p) _ acc terms k _ _ R Hr (is_op_cmp_word _)).
    destruct (IH (acc ++ [mkLpRow (fst p) terms (cmp_word (lr_cmp (snd p))) (qv (lr_rhs (snd p)) - k)%Q]) f ltac:(cbn [flat_map] in Lf; rewrite app_length in Lf; unfold row_toks at 1 in Lf; cbn [app List.length] in Lf; lia)) as [rows' [E Hl]].
    exists (mkLpRow (fst p) terms (cmp_word (lr_cmp (snd p))) (qv (lr_rhs (snd p)) - k)%Q :: rows').
    split; [unfold R; rewrite E, <- app_assoc; reflexivity|].
    cbn [map leqb]. unfold row_den at 1. rewrite (lprow_eqb_written _ _ _ _ _ _ Ht Hk). exact Hl.
Qed.

(* ---------- bounds *)
Definition bound_toks (p : string * vtype) : list ltok :=
  match snd p with
  | TBoolean => []
  | TIntegerRange lo hi => [LNum (inject_Z lo); LWord "<="; LWord (fst p); LWord "<="; LNum (inject_Z hi); LNL]
  | TNonNegativeReal lo hi =>
      if xq_is_zero lo && xq_eqb hi PInf then []
      else [lp_bound lo; LWord "<="; LWord (fst p); LWord "<="; lp_bound hi; LNL]
  | TReal lo hi =>
      if xq_eqb lo NInf && xq_eqb hi PInf then [LWord (fst p); LWord "free"; LNL]
      else [lp_bound lo; LWord "<="; LWord (fst p); LWord "<="; lp_bound hi; LNL]
  end%string.
Definition bound_den (p : string * vtype) : list (string * option (bnd * bnd)) :=
  match snd p with
  | TBoolean => []
  | TIntegerRange lo hi => [(fst p, Some (BNum (inject_Z lo), BNum (inject_Z hi)))]
  | TNonNegativeReal lo hi => if xq_is_zero lo && xq_eqb hi PInf then [] else [(fst p, Some (to_bnd lo, to_bnd hi))]
  | TReal lo hi => if xq_eqb lo NInf && xq_eqb hi PInf then [(fst p, None)] else [(fst p, Some (to_bnd lo, to_bnd hi))]
  end.

Lemma read_bnd_written x : bound_ok x = true -> read_bnd (lp_bound x) = Some (to_bnd x).
Proof. destruct x; cbn; intros; try discriminate; reflexivity. Qed.
Lemma read_bounds_free f v rest acc : is_section v = false ->
  read_bounds (S f) (LWord v :: LWord "free"%string :: LNL :: rest) acc = read_bounds f rest (acc ++ [(v, None)]).
Proof. intros H. cbn [read_bounds]. rewrite H. reflexivity. Qed.
Lemma read_bounds_range f lo v hi rest acc :
  bound_ok lo = true -> bound_ok hi = true ->
  read_bounds (S f) (lp_bound lo :: LWord "<="%string :: LWord v :: LWord "<="%string :: lp_bound hi :: LNL :: rest) acc
  = read_bounds f rest (acc ++ [(v, Some (to_bnd lo, to_bnd hi))]).
Proof.
  intros Hl Hh. pose proof (read_bnd_written lo Hl) as Rl. pose proof (read_bnd_written hi Hh) as Rh.
  destruct lo as [ql| | |]; try discriminate Hl; cbn [lp_bound] in *; cbn [read_bounds]; rewrite ?Rl, Rh; reflexivity.
Qed.
Lemma read_bounds_stop f w rest acc : read_bounds (S f) (LWord w :: LNL :: rest) acc = Some (acc, LWord w :: LNL :: rest).
Proof. reflexivity. Qed.

Lemma read_bounds_written w r : forall (dom : list (string * vtype)) acc fuel,
  forallb dom_entry_ok dom = true -> List.length (flat_map bound_toks dom) < fuel ->
  read_bounds fuel (flat_map bound_toks dom ++ LWord w :: LNL :: r) acc = Some (acc ++ flat_map bound_den dom, LWord w :: LNL :: r).
Proof.
  induction dom as [|[v t] dom IH]; intros acc fuel Hok Lf.
  - destruct fuel as [|f]; [lia|]. cbn [flat_map app]. rewrite app_nil_r. apply read_bounds_stop.
  - destruct fuel as [|f]; [lia|]. cbn [forallb] in Hok. apply andb_true_iff in Hok as [Hp Hok].
    unfold dom_entry_ok in Hp. cbn [fst snd] in Hp. apply andb_true_iff in Hp as [Hv Ht].
    unfold word_ok in Hv. apply andb_true_iff in Hv as [_ Hs]. apply negb_true_iff in Hs.
    destruct t as [|lo hi|lo hi|lo hi]; cbn [flat_map bound_toks bound_den fst snd] in Lf |- *.
    + cbn [app List.length] in Lf |- *. apply IH; [exact Hok|exact Lf].
    + cbn [app List.length] in Lf |- *. change (LNum (inject_Z lo)) with (lp_bound (Fin (inject_Z lo))). change (LNum (inject_Z hi)) with (lp_bound (Fin (inject_Z hi))).
      rewrite read_bounds_range by reflexivity. cbn [to_bnd]. rewrite IH by (try assumption; lia). rewrite <- app_assoc. reflexivity.
    + apply andb_true_iff in Ht as [Hl Hh]. destruct (xq_is_zero lo && xq_eqb hi PInf); cbn [app List.length] in Lf |- *.
      * apply IH; [exact Hok|exact Lf].
      * rewrite read_bounds_range by assumption. rewrite IH by (try assumption; lia). rewrite <- app_assoc. reflexivity.
    + apply andb_true_iff in Ht as [Hl Hh]. destruct (xq_eqb lo NInf && xq_eqb hi PInf); cbn [app List.length] in Lf |- *.
      * rewrite read_bounds_free by exact Hs. rewrite IH by (try assumption; lia). rewrite <- app_assoc. reflexivity.
      * rewrite read_bounds_range by assumption. rewrite IH by (try assumption; lia). rewrite <- app_assoc. reflexivity.
Qed.

Lemma read_names_written : forall names rest acc, read_names (map LWord names ++ LNL :: rest) acc = (acc ++ names, rest).
Proof.
  induction names as [|n names IH]; intros rest acc; cbn [map app read_names]; [rewrite app_nil_r; reflexivity|].
  rewrite IH, <- app_assoc. reflexivity.
Qed.

(* ---------- the whole file *)
Definition is_bool_entry (p : string * vtype) : bool := match snd p with TBoolean => true | _ => false end.
Definition is_int_entry (p : string * vtype) : bool := match snd p with TIntegerRange _ _ => true | _ => false end.
Definition sec (title : string) (body : list ltok) : list ltok := match body with [] => [] | _ => [LWord title; LNL] ++ body end.
Definition sec_names (title : string) (names : list string) : list ltok :=
  match names with [] => [] | _ => [LWord title; LNL] ++ map LWord names ++ [LNL] end.

Lemma lp_write_shape L :
  lp_write L =
    LWord (match lm_dir L with DMax => "Maximize" | _ => "Minimize" end)%string :: LNL :: LWord "obj"%string :: LWord ":"%string ::
    lp_terms (lm_objective L) (lm_vars L) ++ off_part (qv (lm_offset L)) ++ LNL :: LWord "Subject"%string :: LWord "To"%string :: LNL ::
    flat_map (row_toks (lm_vars L)) (combine (lp_row_names (lm_rows L)) (lm_rows L))
    ++ sec "Bounds" (flat_map bound_toks (lm_domain L))
    ++ sec_names "Binary" (map fst (filter is_bool_entry (lm_domain L)))
    ++ sec_names "General" (map fst (filter is_int_entry (lm_domain L)))
    ++ [LWord "End"%string; LNL].
Proof. unfold lp_write. cbn [app]. rewrite <- ?app_assoc. cbn [app]. reflexivity. Qed.

Definition bounds_eqb (x y : string * option (bnd * bnd)) : bool :=
  String.eqb (fst x) (fst y) &&
  match snd x, snd y with None, None => true | Some (l1, h1), Some (l2, h2) => bnd_eqb l1 l2 && bnd_eqb h1 h2 | _, _ => false end.
Lemma bounds_eqb_refl x : bounds_eqb x x = true.
Proof. destruct x as [v [[l h]|]]; unfold bounds_eqb; cbn [fst snd]; rewrite String.eqb_refl, ?bnd_eqb_refl; reflexivity. Qed.

(* what follows the rows always starts with a section word and a line end *)
Lemma after_rows_shape (B Bi G : list ltok) names1 names2 :
  Bi = sec_names "Binary" names1 -> G = sec_names "General" names2 ->
  forall body, B = sec "Bounds" body ->
  exists w r, B ++ Bi ++ G ++ [LWord "End"%string; LNL] = LWord w :: LNL :: r /\ is_section w = true.
Proof.
  intros -> -> body ->. destruct body as [|b body].
  - cbn [sec app]. destruct names1 as [|n1 names1].
    + cbn [sec_names app]. destruct names2 as [|n2 names2]; cbn [sec_names app]; eexists _, _; split; reflexivity.
    + cbn [sec_names app]. eexists _, _; split; reflexivity.
  - cbn [sec app]. eexists _, _; split; reflexivity.
Qed.

(* the three optional sections, as lp_read consumes them *)
Definition rd_bounds (rest2 : list ltok) : option (list (string * option (bnd * bnd))) * list ltok :=
  match rest2 with
  | LWord "Bounds" :: LNL :: r =>
      match read_bounds (List.length r + 1) r [] with Some (b, r') => (Some b, r') | None => (None, r) end
  | _ => (Some [], rest2)
  end%string.
Definition rd_binary (rest3 : list ltok) : list string * list ltok :=
  match rest3 with LWord "Binary" :: LNL :: r => read_names r [] | _ => ([], rest3) end%string.
Definition rd_general (rest4 : list ltok) : list string * list ltok :=
  match rest4 with LWord "General" :: LNL :: r => read_names r [] | _ => ([], rest4) end%string.

Lemma lp_read_stages sense rest :
  lp_read (LWord sense :: LNL :: LWord "obj"%string :: LWord ":"%string :: rest) =
    let mx := String.eqb sense "Maximize" in
    if negb (mx || String.eqb sense "Minimize") then None else
    match read_terms (List.length rest + 1) 1%Q rest [] 0%Q with
    | Some (obj, c, LNL :: LWord "Subject" :: LWord "To" :: LNL :: rest1) =>
        match read_rows (List.length rest1 + 1) rest1 [] with
        | Some (rows, rest2) =>
            let '(bounds, rest3) := rd_bounds rest2 in
            match bounds with
            | None => None
            | Some bounds =>
                let '(bins, rest4) := rd_binary rest3 in
                let '(gens, rest5) := rd_general rest4 in
                match rest5 with
                | [LWord "End"; LNL] => Some (mkLpFile mx obj c rows bounds bins gens)
                | _ => None
                end
            end
        | None => None
        end
    | _ => None
    end%string.
Proof. reflexivity. Qed.

Lemma rd_general_written names :
  rd_general (sec_names "General" names ++ [LWord "End"%string; LNL]) = (names, [LWord "End"%string; LNL]).
Proof.
  destruct names as [|n names]; [reflexivity|]. unfold sec_names. cbn [app]. unfold rd_general.
  rewrite <- app_assoc. cbn [app]. rewrite read_names_written. reflexivity.
Qed.
Lemma rd_binary_written names tail : (exists w r, tail = LWord w :: LNL :: r /\ String.eqb w "Binary" = false) ->
  rd_binary (sec_names "Binary" names ++ tail) = (names, tail).
Proof.
  intros [w [r [-> Hw]]]. destruct names as [|n names].
  - cbn [sec_names app]. unfold rd_binary.
    destruct w as [|a w']; [reflexivity|]. revert Hw. cbn [String.eqb]. intros Hw.
    (* decide the literal match through the boolean comparison *)
    assert (G : forall s : string, String.eqb s "Binary" = false ->
              match LWord s :: LNL :: r with LWord "Binary"%string :: LNL :: r0 => read_names r0 [] | _ => ([], LWord s :: LNL :: r) end = ([], LWord s :: LNL :: r)).
    { clear. intros s Hs. destruct (string_dec s "Binary") as [->|Ne]; [rewrite String.eqb_refl in Hs; discriminate|].
      repeat (match goal with |- context [match ?x with _ => _ end] => is_var x; destruct x end; try reflexivity; try (exfalso; apply Ne; reflexivity)). }
    apply (G (String a w')). cbn [String.eqb]. exact Hw.
  - unfold sec_names. cbn [app]. unfold rd_binary. rewrite <- app_assoc. cbn [app]. rewrite read_names_written. reflexivity.
Qed.

Lemma bound_toks_empty p : bound_toks p = [] -> bound_den p = [].
Proof.
  unfold bound_toks, bound_den. destruct (snd p) as [|lo hi|lo hi|lo hi]; try reflexivity; try discriminate.
  - destruct (xq_is_zero lo && xq_eqb hi PInf); [reflexivity|discriminate].
  - destruct (xq_eqb lo NInf && xq_eqb hi PInf); discriminate.
Qed.
Lemma flat_bounds_empty : forall dom, flat_map bound_toks dom = [] -> flat_map bound_den dom = [].
Proof.
  induction dom as [|p dom IH]; [reflexivity|]. cbn [flat_map]. intros H. apply app_eq_nil in H as [H1 H2].
  rewrite (bound_toks_empty p H1), (IH H2). reflexivity.
Qed.

Lemma rd_bounds_written dom w r : String.eqb w "Bounds" = false -> forallb dom_entry_ok dom = true ->
  rd_bounds (sec "Bounds" (flat_map bound_toks dom) ++ LWord w :: LNL :: r) = (Some (flat_map bound_den dom), LWord w :: LNL :: r).
Proof.
  intros Hw Hok. destruct (flat_map bound_toks dom) as [|b body] eqn:E.
  - rewrite (flat_bounds_empty dom E). cbn [sec app]. unfold rd_bounds.
    assert (G : forall s : string, String.eqb s "Bounds" = false ->
              match LWord s :: LNL :: r with
              | LWord "Bounds"%string :: LNL :: r0 => match read_bounds (List.length r0 + 1) r0 [] with Some (b, r') => (Some b, r') | None => (None, r0) end
              | _ => (Some [], LWord s :: LNL :: r) end = (Some [], LWord s :: LNL :: r)).
    { clear. intros s Hs. destruct (string_dec s "Bounds") as [->|Ne]; [rewrite String.eqb_refl in Hs; discriminate|].
      repeat (match goal with |- context [match ?x with _ => _ end] => is_var x; destruct x end; try reflexivity; try (exfalso; apply Ne; reflexivity)). }
    apply G. exact Hw.
  - change (sec "Bounds" (b :: body) ++ LWord w :: LNL :: r) with (LWord "Bounds"%string :: LNL :: (b :: body) ++ LWord w :: LNL :: r).
    rewrite <- E. unfold rd_bounds.
    rewrite (read_bounds_written w r dom [] _ Hok) by (rewrite app_length; cbn [List.length]; lia).
    reflexivity.
Qed.

Lemma rows_tokens_len vars : forall prs : list (string * lrow), List.length prs <= List.length (flat_map (row_toks vars) prs).
Proof. induction prs as [|p prs IH]; [reflexivity|]. cbn [flat_map List.length]. rewrite app_length. unfold row_toks at 1. cbn [app List.length]. lia. Qed.

Theorem lp_roundtrip L : lp_okb L = true ->
  exists f, lp_read (lp_write L) = Some f /\ lpfile_eqb f (denote L) = true.
Proof.
  intros OK. unfold lp_okb in OK. apply andb_true_iff in OK as [Hv Hd].
  assert (Hn : Forall (fun v => name_ok v = true) (lm_vars L)).
  { apply Forall_forall. intros v Iv. pose proof (proj1 (forallb_forall _ _) Hv v Iv) as K. unfold word_ok in K. apply andb_true_iff in K as [K _]. exact K. }
  rewrite lp_write_shape. rewrite lp_read_stages.
  set (bins := map fst (filter is_bool_entry (lm_domain L))).
  set (gens := map fst (filter is_int_entry (lm_domain L))).
  set (prs := combine (lp_row_names (lm_rows L)) (lm_rows L)).
  set (TG := sec_names "General" gens ++ [LWord "End"%string; LNL]).
  assert (ShG : exists w r, TG = LWord w :: LNL :: r /\ String.eqb w "Binary" = false /\ String.eqb w "Bounds" = false /\ is_section w = true).
  { unfold TG. destruct gens as [|g gens']; cbn [sec_names app]; eexists _, _; repeat split; reflexivity. }
  set (TB := sec_names "Binary" bins ++ TG).
  assert (ShB : exists w r, TB = LWord w :: LNL :: r /\ String.eqb w "Bounds" = false /\ is_section w = true).
  { unfold TB. destruct bins as [|b bins'].
    - cbn [sec_names app]. destruct ShG as [w [r [-> [_ [H1 H2]]]]]. exists w, r. repeat split; assumption.
    - cbn [sec_names app]. eexists _, _; repeat split; reflexivity. }
  set (AFTER := sec "Bounds" (flat_map bound_toks (lm_domain L)) ++ TB).
  assert (ShA : exists w r, AFTER = LWord w :: LNL :: r /\ is_section w = true).
  { unfold AFTER. destruct (flat_map bound_toks (lm_domain L)) as [|b body].
    - cbn [sec app]. destruct ShB as [w [r [-> [_ H2]]]]. exists w, r. split; [reflexivity|exact H2].
    - cbn [sec app]. eexists _, _; split; reflexivity. }
  change (sec "Bounds" (flat_map bound_toks (lm_domain L)) ++ sec_names "Binary" bins ++ sec_names "General" gens ++ [LWord "End"%string; LNL]) with AFTER.
  (* objective *)
  destruct (read_objective (lm_objective L) (lm_vars L) (qv (lm_offset L)) (LWord "Subject"%string :: LWord "To"%string :: LNL :: flat_map (row_toks (lm_vars L)) prs ++ AFTER) Hn)
    as [oterms [c [Hro [Hot Hc]]]].
  rewrite Hro. clear Hro.
  (* rows *)
  destruct ShA as [wa [ra [EA Hwa]]].
  destruct (read_rows_written (lm_vars L) wa ra Hn Hwa prs [] (List.length (flat_map (row_toks (lm_vars L)) prs ++ AFTER) + 1)) as [rows' [Hrr Hrl]].
  { rewrite app_length. lia. }
  rewrite EA in Hrr |- *. rewrite Hrr. clear Hrr. rewrite <- EA. cbn [app].
  (* bounds, binary, general *)
  unfold AFTER. destruct ShB as [wb [rb [EB [Hwb _]]]]. rewrite EB.
  rewrite (rd_bounds_written (lm_domain L) wb rb Hwb Hd). rewrite <- EB. unfold TB.
  destruct ShG as [wg [rg [EG [Hwg _]]]].
  rewrite (rd_binary_written bins TG (ex_intro _ wg (ex_intro _ rg (conj EG Hwg)))).
  unfold TG. rewrite rd_general_written.
  destruct (lm_dir L) eqn:D; (eexists; split; [reflexivity|]);
  unfold lpfile_eqb, denote; rewrite D; cbn [pf_max pf_obj pf_const pf_rows pf_bounds pf_binary pf_general];
  match goal with |- (Bool.eqb ?a ?b && _ && _ && _ && _ && _ && _)%bool = true =>
    change ((Bool.eqb a b && leqb term_eqb oterms (nonzero_terms (lm_objective L) (lm_vars L)) && Qeq_bool c (qv (lm_offset L))
             && leqb lprow_eqb rows' (map (row_den (lm_vars L)) prs)
             && leqb bounds_eqb (flat_map bound_den (lm_domain L)) (flat_map bound_den (lm_domain L))
             && leqb String.eqb bins bins && leqb String.eqb gens gens)%bool = true) end;
  rewrite Hot, Hc, Hrl, (leqb_refl _ bounds_eqb_refl), !(leqb_refl _ String.eqb_refl); reflexivity.
Qed.
