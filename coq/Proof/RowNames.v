(* C08: the row names of the compiled model are pairwise distinct (empty names aside) - Linearizer::linearize's
   de-duplication loop (dedup_names / find_candidate), for every list of rows. *)
From Coq Require Import QArith ZArith NArith Bool List String Lia DecimalString DecimalN DecimalPos.
From Rooc Require Import Base.XQ Model.Exp Model.Bounds Model.Linearize Proof.LinFrame Proof.WellFormed.
Import ListNotations.
Local Close Scope Q_scope.
Local Open Scope list_scope.
Local Open Scope string_scope.

(* ---------- decimal names of distinct numbers are distinct *)
Lemma n_to_uint_nonnil n : N.to_uint n <> Decimal.Nil.
Proof. destruct n; cbn; [discriminate|apply DecimalPos.Unsigned.to_uint_nonnil]. Qed.
Lemma n_to_string_inj a b : n_to_string a = n_to_string b -> a = b.
Proof.
  unfold n_to_string. intros H.
  assert (E : NilZero.uint_of_string (NilZero.string_of_uint (N.to_uint a)) = NilZero.uint_of_string (NilZero.string_of_uint (N.to_uint b))) by (rewrite H; reflexivity).
  rewrite !NilZero.usu in E by apply n_to_uint_nonnil. inversion E as [E'].
  rewrite <- (DecimalN.Unsigned.of_to a), <- (DecimalN.Unsigned.of_to b), E'. reflexivity.
Qed.
Lemma append_inj_l p : forall a b, String.append p a = String.append p b -> a = b.
Proof. induction p as [|c p IH]; intros a b H; cbn in H; [exact H|]. inversion H. apply IH. assumption. Qed.
Definition cand (base : string) (k : N) : string := base +++ "__" +++ n_to_string k.
Lemma cand_inj base a b : cand base a = cand base b -> a = b.
Proof. unfold cand. intros H. apply append_inj_l in H. apply append_inj_l in H. apply n_to_string_inj. exact H. Qed.

(* ---------- the search returns a free name when it has enough fuel *)
Definition taken (src assigned : list string) (x : string) : bool := set_mem src x || set_mem assigned x.
Lemma find_candidate_spec : forall fuel base c src assigned,
  exists k, find_candidate fuel base c src assigned = cand base (c + k) /\ (k <= N.of_nat fuel)%N /\
    (forall j, (j < k)%N -> taken src assigned (cand base (c + j)) = true) /\
    (taken src assigned (cand base (c + k)) = false \/ k = N.of_nat fuel).
Proof.
  induction fuel as [|fuel IH]; intros base c src assigned.
  - exists 0%N. cbn [find_candidate]. rewrite N.add_0_r. split; [reflexivity|]. split; [lia|]. split; [intros j Hj; lia|right; reflexivity].
  - cbn [find_candidate]. fold (cand base c). fold (taken src assigned (cand base c)).
    destruct (taken src assigned (cand base c)) eqn:T.
    + destruct (IH base (c + 1)%N src assigned) as [k [E [Lk [Hall Hend]]]].
      exists (k + 1)%N. replace (c + (k + 1))%N with (c + 1 + k)%N by lia. split; [exact E|]. split; [lia|]. split.
      * intros j Hj. destruct (N.eq_dec j 0) as [-> | Nz]; [rewrite N.add_0_r; exact T|].
        replace (c + j)%N with (c + 1 + (j - 1))%N by lia. apply Hall. lia.
      * destruct Hend as [F | ->]; [left; exact F|right; lia].
    + exists 0%N. rewrite N.add_0_r. split; [reflexivity|]. split; [lia|]. split; [intros j Hj; lia|left; exact T].
Qed.

Lemma seqN_NoDup_map base c : forall n, NoDup (map (fun j => cand base (c + N.of_nat j)) (seq 0 n)).
Proof.
  intros n. apply FinFun.Injective_map_NoDup; [|apply seq_NoDup].
  intros i j H. apply cand_inj in H. lia.
Qed.

Lemma find_candidate_free fuel base c src assigned :
  List.length src + List.length assigned < S fuel ->
  taken src assigned (find_candidate fuel base c src assigned) = false.
Proof.
  intros Lf. destruct (find_candidate_spec fuel base c src assigned) as [k [E [Lk [Hall Hend]]]]. rewrite E.
  destruct Hend as [F | ->]; [exact F|].
  destruct (taken src assigned (cand base (c + N.of_nat fuel))) eqn:T; [|reflexivity]. exfalso.
  (* fuel + 1 distinct names all inside src ++ assigned *)
  set (cands := map (fun j => cand base (c + N.of_nat j)) (seq 0 (S fuel))).
  assert (Inc : incl cands (src ++ assigned)).
  { intros x Hx. unfold cands in Hx. apply in_map_iff in Hx as [j [<- Hj]]. apply in_seq in Hj.
    assert (Tj : taken src assigned (cand base (c + N.of_nat j)) = true).
    { destruct (Nat.eq_dec j fuel) as [-> | Ne]; [exact T|apply Hall; lia]. }
    unfold taken in Tj. apply orb_true_iff in Tj as [Tj|Tj]; apply set_mem_In in Tj; apply in_or_app; [left|right]; exact Tj. }
  pose proof (NoDup_incl_length (seqN_NoDup_map base c (S fuel)) Inc) as Len.
  unfold cands in Len. rewrite map_length, seq_length, app_length in Len. lia.
Qed.

(* ---------- the de-duplication loop *)
Definition nonempty (r : midrow) : bool := negb (String.eqb (r_name r) "").
Definition names_of (rows : list midrow) : list string := map r_name (filter nonempty rows).

Lemma names_of_app a b : names_of (a ++ b)%list = (names_of a ++ names_of b)%list.
Proof. unfold names_of. rewrite filter_app, map_app. reflexivity. Qed.
Lemma append_nonempty a b : a <> "" -> String.append a b <> "".
Proof. destruct a; [contradiction|]. intros _. cbn. discriminate. Qed.

Lemma src_length : forall (rows : list midrow) acc,
  List.length (fold_left (fun acc r => if String.eqb (r_name r) "" then acc else set_add acc (r_name r)) rows acc) <= List.length acc + List.length rows.
Proof.
  induction rows as [|r rows IH]; intros acc; cbn [fold_left List.length]; [lia|].
  destruct (String.eqb (r_name r) "").
  - specialize (IH acc). lia.
  - specialize (IH (set_add acc (r_name r))). unfold set_add in *. destruct (set_mem acc (r_name r)); [lia|rewrite app_length in IH; cbn in IH; lia].
Qed.

Theorem dedup_names_unique rows : NoDup (names_of (dedup_names rows)).
Proof.
  unfold dedup_names.
  set (src := fold_left _ rows []).
  assert (Ls : List.length src <= List.length rows) by (pose proof (src_length rows []) as H; cbn in H; exact H).
  set (fuel := 2 * List.length rows + 4). clearbody src.
  match goal with |- context [fold_left ?f rows ([], [])] => set (step := f) end.
  assert (G : forall rs out assigned, names_of out = assigned -> NoDup assigned ->
            List.length assigned + List.length rs <= List.length rows ->
            NoDup (names_of (fst (fold_left step rs (out, assigned))))).
  { induction rs as [|r rs IH]; intros out assigned I2 I1 Ln; cbn [fold_left]; [cbn [fst]; rewrite I2; exact I1|].
    cbn [List.length] in Ln. unfold step at 2.
    destruct (String.eqb (r_name r) "") eqn:E.
    - apply IH; [|exact I1|lia]. rewrite names_of_app, I2. unfold names_of. cbn [filter]. unfold nonempty. rewrite E. cbn. apply app_nil_r.
    - destruct (negb (set_mem assigned (r_name r))) eqn:M.
      + apply IH; [| |rewrite app_length; cbn; lia].
        * rewrite names_of_app, I2. unfold names_of. cbn [filter]. unfold nonempty. rewrite E. reflexivity.
        * apply NoDup_snoc; [exact I1|]. intros I. apply set_mem_In in I. rewrite I in M. discriminate.
      + set (c := find_candidate fuel (r_name r) 2%N src assigned).
        assert (Free : taken src assigned c = false) by (apply find_candidate_free; unfold fuel; lia).
        assert (Nc : String.eqb c "" = false).
        { destruct (find_candidate_spec fuel (r_name r) 2%N src assigned) as [k [Ek _]]. fold c in Ek. rewrite Ek. unfold cand.
          apply String.eqb_neq. apply append_nonempty. apply String.eqb_neq. exact E. }
        apply IH; [| |rewrite app_length; cbn; lia].
        * rewrite names_of_app, I2. unfold names_of. cbn [filter]. unfold nonempty. cbn [r_name]. rewrite Nc. reflexivity.
        * apply NoDup_snoc; [exact I1|]. intros I. apply set_mem_In in I. unfold taken in Free. rewrite I, orb_true_r in Free. discriminate. }
  apply G; [reflexivity|constructor|cbn; lia].
Qed.

(* the compiled model: pairwise distinct row names, empty names aside *)
Theorem compile_row_names_unique m L : compile m = inr L ->
  NoDup (map lr_name (filter (fun r => negb (String.eqb (lr_name r) "")) (lm_rows L))).
Proof.
  intros HC. destruct (compile_inv m L HC) as [s2 [lobj [_ [_ [_ [Hr _]]]]]]. rewrite Hr. clear Hr HC.
  pose proof (dedup_names_unique (s_rows s2)) as U. unfold names_of in U.
  set (rows := dedup_names (s_rows s2)) in *. clearbody rows.
  induction rows as [|r rows IH]; [constructor|]. cbn [map filter lr_name] in *. unfold nonempty in U at 1.
  destruct (negb (String.eqb (r_name r) "")) eqn:E; cbn [map lr_name] in *.
  - inversion U as [|? ? Nin U']; subst. constructor; [|apply IH; exact U'].
    intros I. apply Nin. clear - I. induction rows as [|x rows IHr]; [destruct I|]. cbn [map filter lr_name] in I. cbn [filter]. unfold nonempty at 1.
    destruct (negb (String.eqb (r_name x) "")); cbn [map lr_name] in *; [destruct I as [<-|I]; [left; reflexivity|right; apply IHr; exact I]|apply IHr; exact I].
  - apply IH. exact U.
Qed.
