(* Correspondence for C09: token sequence -> model Pratt parse with the regenerated table -> expression tree,
   compared with the expression the implementation compiled from the corresponding text. *)
From Coq Require Import ZArith Bool List String.
From Rooc Require Import Base.XQ Model.Exp Model.Pratt.
Import ListNotations.

Record c9 := mkC9 { c9_tokens : list token; c9_names : list string; c9_exp : exp }.

Fixpoint rename (names : list string) (t : tree) : exp :=
  match t with
  | Leaf a => Var (nth a names ""%string)
  | Pre Neg u => UnOp Neg (rename names u)
  | Pre UNot u => Not (rename names u)
  | Bin op l r =>
      match op with
      | BAnd => And [rename names l; rename names r]
      | BOr => Or [rename names l; rename names r]
      | BXor => Xor (rename names l) (rename names r)
      | BImplies => Implies (rename names l) (rename names r)
      | BIff => Iff (rename names l) (rename names r)
      | _ => BinOp op (rename names l) (rename names r)
      end
  end.

Definition check_c9 (c : c9) : bool :=
  match src_parse (c9_tokens c) with
  | Some t => src_wfb t && exp_close (rename (c9_names c) t) (c9_exp c)
  | None => false
  end.
Fixpoint c9_from (i : Z) (l : list c9) : list Z :=
  match l with
  | [] => []
  | c :: cs => if check_c9 c then c9_from (i + 1)%Z cs else i :: c9_from (i + 1)%Z cs
  end.
Definition c9_failures (l : list c9) : list Z := c9_from 0%Z l.
Definition c9_out (c : c9) := option_map (rename (c9_names c)) (src_parse (c9_tokens c)).
