(* Correspondence for C06: a data-driven program (AST of Model.Expand) and what the implementation compiled from its
   source text: objective tree, constraints in order (name, sides, relation), declared variables in order with types. *)
From Coq Require Import QArith ZArith Bool List String.
From Rooc Require Import Base.XQ Model.Exp Model.Expand Tie.TieC01.
Import ListNotations.
Local Close Scope Q_scope.

Record c6 := mkC6 { c6_prog : pprog; c6_impl : option (exp * list constr * list (string * vtype)) }.

Definition constr_close (a b : constr) : bool :=
  String.eqb (c_name a) (c_name b) && exp_close (c_lhs a) (c_lhs b) && cmp_eqb (c_cmp a) (c_cmp b)
  && (c_assert a && c_assert b || (negb (c_assert a) && negb (c_assert b) && exp_close (c_rhs a) (c_rhs b))).
Definition vtype_close (a b : vtype) : bool :=
  match a, b with
  | TBoolean, TBoolean => true
  | TIntegerRange l h, TIntegerRange l' h' => Z.eqb l l' && Z.eqb h h'
  | TReal l h, TReal l' h' | TNonNegativeReal l h, TNonNegativeReal l' h' => xq_close l l' && xq_close h h'
  | _, _ => false
  end.
Definition check_c6 (c : c6) : bool :=
  match expand_prog (c6_prog c), c6_impl c with
  | Some (o, cs, ds), Some (o', cs', ds') =>
      exp_close o o' && list_eqb constr_close cs cs'
      && list_eqb (fun x y => String.eqb (fst x) (fst y) && vtype_close (snd x) (snd y)) ds ds'
  | None, None => true
  | _, _ => false
  end.
Fixpoint c6_from (i : Z) (l : list c6) : list Z :=
  match l with
  | [] => []
  | c :: cs => if check_c6 c then c6_from (i + 1)%Z cs else i :: c6_from (i + 1)%Z cs
  end.
Definition c6_failures (l : list c6) : list Z := c6_from 0%Z l.
Definition c6_out (c : c6) := expand_prog (c6_prog c).
