(* Correspondence for C19: the operator tables (static and dynamic), the static result kinds, and constant
   expressions checked and evaluated end to end by the implementation. *)
From Coq Require Import QArith ZArith Bool List String.
From Rooc Require Import Base.XQ Model.Exp Model.Types.
Import ListNotations.
Local Close Scope Q_scope.

Definition vnum (x : xq) : value := match x with Fin q => VNum q | _ => VUndef end.

Inductive outcome := OOk | OType | ODivZero | OOverflow | OUndeclared | OOther.
Inductive t19 :=
| TCanBin (k : kind) (op : binop) (k' : kind) (b : bool)
| TCanUn (k : kind) (op : unop) (b : bool)
| TApplyBin (v : value) (op : binop) (w : value) (r : value + oerr)
| TApplyUn (op : unop) (v : value) (r : value + oerr)
| TResBin (k : kind) (op : binop) (k' : kind) (r : kind)
| TResUn (op : unop) (k : kind) (r : kind)
| TCexp (e : cexp) (accepted : bool) (o : outcome).

Definition oerr_eqb (a b : oerr) : bool :=
  match a, b with
  | EIncompatible, EIncompatible | EUnsupported, EUnsupported | EUndefinedUse, EUndefinedUse | EDivZero, EDivZero | EOverflow, EOverflow => true
  | _, _ => false end.
Definition value_close (a b : value) : bool :=
  match a, b with
  | VNum x, VNum y => xq_close (Fin x) (Fin y)
  | VInt x, VInt y | VPos x, VPos y => Z.eqb x y
  | VStr x, VStr y => String.eqb x y
  | VBool x, VBool y => Bool.eqb x y
  | VOpaque x, VOpaque y => kind_eqb x y
  | VUndef, VUndef => true
  | _, _ => false end.
Definition res_close (a b : value + oerr) : bool :=
  match a, b with inl x, inl y => value_close x y | inr x, inr y => oerr_eqb x y | _, _ => false end.

(* the constants of the harness's constant-expression programs *)
Definition consts : list (string * value) :=
  [("a", VNum (5 # 2)); ("i", VInt 3); ("t", VBool true); ("w", VStr "s"); ("z", VInt 0); ("L", VOpaque KIterable)]%string.
Definition venv (n : string) : option value :=
  match filter (fun p => String.eqb (fst p) n) consts with (_, v) :: _ => Some v | [] => None end.
Definition tenv (n : string) : option kind := option_map kind_of (venv n).

Definition outcome_eqb (a b : outcome) : bool :=
  match a, b with OOk, OOk | OType, OType | ODivZero, ODivZero | OOverflow, OOverflow | OUndeclared, OUndeclared | OOther, OOther => true | _, _ => false end.
Definition model_outcome (e : cexp) : outcome :=
  match ceval venv e with
  | ROk _ => OOk
  | ROp EDivZero => ODivZero
  | ROp EOverflow => OOverflow
  | ROp _ => OType
  | RUndeclared => OUndeclared
  end.

Definition check_t19 (c : t19) : bool :=
  match c with
  | TCanBin k op k' b => Bool.eqb (can_bin k op k') b
  | TCanUn k op b => Bool.eqb (can_un k op) b
  | TApplyBin v op w r => res_close (apply_bin v op w) r
  | TApplyUn op v r => res_close (apply_un op v) r
  | TResBin k op k' r => kind_eqb (res_bin k op k') r
  | TResUn op k r => kind_eqb (res_un op k) r
  | TCexp e acc o => Bool.eqb (ccheck tenv e) acc && outcome_eqb (model_outcome e) o
  end.
Fixpoint t19_from (i : Z) (l : list t19) : list Z :=
  match l with
  | [] => []
  | c :: cs => if check_t19 c then t19_from (i + 1)%Z cs else i :: t19_from (i + 1)%Z cs
  end.
Definition t19_failures (l : list t19) : list Z := t19_from 0%Z l.
Definition t19_out (c : t19) :=
  match c with
  | TCanBin k op k' _ => (can_bin k op k', @inr value oerr EUnsupported, KUndefined, OOther)
  | TCanUn k op _ => (can_un k op, inr EUnsupported, KUndefined, OOther)
  | TApplyBin v op w _ => (true, apply_bin v op w, KUndefined, OOther)
  | TApplyUn op v _ => (true, apply_un op v, KUndefined, OOther)
  | TResBin k op k' _ => (true, inr EUnsupported, res_bin k op k', OOther)
  | TResUn op k _ => (true, inr EUnsupported, res_un op k, OOther)
  | TCexp e _ _ => (ccheck tenv e, inr EUnsupported, ctype tenv e, model_outcome e)
  end.
