(* which tied models lie in the fragment on which the C01/C02 theorems are proved end to end *)
From Coq Require Import ZArith List String.
From Rooc Require Import Base.XQ Model.Exp Model.Bounds Model.Linearize Tie.TieC01 Proof.CompileAffine.
Import ListNotations.
Fixpoint frag_from (i : Z) (l : list lcase) : list Z :=
  match l with
  | [] => []
  | c :: cs => if (match lc_expect c with inr _ => affine_modelb (lc_model c) | inl _ => false end)
               then i :: frag_from (i + 1)%Z cs else frag_from (i + 1)%Z cs
  end.
Definition in_affine_fragment (l : list lcase) : list Z := frag_from 0%Z l.
