(* which tied models lie in the fragments on which the C01/C02 theorems are proved end to end *)
From Coq Require Import ZArith List String.
From Rooc Require Import Base.XQ Model.Exp Model.Bounds Model.Linearize Tie.TieC01 Proof.CompileAffine Proof.CompileAbs.
Import ListNotations.
Fixpoint frag_from (f : model -> bool) (i : Z) (l : list lcase) : list Z :=
  match l with
  | [] => []
  | c :: cs => if (match lc_expect c with inr _ => f (lc_model c) | inl _ => false end)
               then i :: frag_from f (i + 1)%Z cs else frag_from f (i + 1)%Z cs
  end.
Definition in_affine_fragment (l : list lcase) : list Z := frag_from affine_modelb 0%Z l.
(* the arithmetic-with-abs fragment of Proof/CompileAbs.v (contains the affine one up to its side conditions) *)
Definition in_abs_fragment (l : list lcase) : list Z := frag_from abs_modelb 0%Z l.
Definition in_either_fragment (l : list lcase) : list Z := frag_from (fun m => affine_modelb m || abs_modelb m)%bool 0%Z l.
