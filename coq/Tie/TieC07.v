(* Correspondence for bound inference: the guarded hook's box, flags and bounds_of vs Model.Bounds. *)
From Coq Require Import QArith ZArith Bool List String.
From Rooc Require Import Base.XQ Model.Exp Model.Bounds Tie.TieC01.
Import ListNotations.
Local Close Scope Q_scope.

Record bcase := mkBCase {
  bc_dom : list (string * vtype); bc_cs : list constr; bc_steps : nat; bc_probes : list exp;
  bc_box : list (string * bounds); bc_limit : bool; bc_infeasible : bool; bc_probe_bounds : list bounds }.

Definition b_close (a b : bounds) : bool := xq_close (lo a) (lo b) && xq_close (hi a) (hi b).

Definition check_bcase_t (ties : bool) (c : bcase) : bool :=
  let a := analyze_with_t ties (bc_dom c) (bc_cs c) (bc_steps c) in
  list_eqb (fun x y => String.eqb (fst x) (fst y) && b_close (snd x) (snd y)) (a_vb a) (bc_box c)
  && Bool.eqb (a_limit a) (bc_limit c) && Bool.eqb (a_infeasible a) (bc_infeasible c)
  && list_eqb b_close (map (bounds_of a) (bc_probes c)) (bc_probe_bounds c).
(* An exact tie between two bounds computed along different paths is resolved by f64 rounding noise; the
   implementation's answer must be the model's under one of the two resolutions (Bounds.b_intersection). *)
Definition check_bcase (c : bcase) : bool := check_bcase_t false c || check_bcase_t true c.
Definition tie_resolved_by_noise (c : bcase) : bool := negb (check_bcase_t false c) && check_bcase_t true c.
Fixpoint bnoise_from (i : Z) (l : list bcase) : list Z :=
  match l with
  | [] => []
  | c :: cs => if tie_resolved_by_noise c then i :: bnoise_from (i + 1)%Z cs else bnoise_from (i + 1)%Z cs
  end.

Fixpoint bfailures_from (i : Z) (l : list bcase) : list Z :=
  match l with
  | [] => []
  | c :: cs => if check_bcase c then bfailures_from (i + 1)%Z cs else i :: bfailures_from (i + 1)%Z cs
  end.
Definition bfailures (l : list bcase) : list Z := bfailures_from 0%Z l.
Definition bmodel_out (c : bcase) :=
  let a := analyze_with (bc_dom c) (bc_cs c) (bc_steps c) in (a_vb a, a_limit a, a_infeasible a, map (bounds_of a) (bc_probes c)).
