(* Correspondence for C11: an expression tree, and the tokens of the text RoocParser::format printed for it.
   The model printer (render with the regenerated table) must print exactly those tokens, and the model parser
   must read them back as the tree. *)
From Coq Require Import ZArith Bool List String.
From Rooc Require Import Model.Exp Model.Pratt Model.Printer.
Import ListNotations.

Record c11 := mkC11 { c11_tree : tree; c11_tokens : list ptoken }.

Definition binop_eqb (a b : binop) : bool :=
  match a, b with
  | Add, Add | Sub, Sub | Mul, Mul | Div, Div | BAnd, BAnd | BOr, BOr | BXor, BXor | BImplies, BImplies | BIff, BIff => true
  | _, _ => false end.
Definition unop_eqb (a b : unop) : bool := match a, b with Neg, Neg | UNot, UNot => true | _, _ => false end.
Definition token_eqb (a b : token) : bool :=
  match a, b with
  | TAtom x, TAtom y => Nat.eqb x y
  | TInfix x, TInfix y => binop_eqb x y
  | TPrefix x, TPrefix y => unop_eqb x y
  | _, _ => false end.
Definition ptoken_eqb (a b : ptoken) : bool :=
  match a, b with PT x, PT y => token_eqb x y | PLP, PLP | PRP, PRP => true | _, _ => false end.
Fixpoint ptokens_eqb (a b : list ptoken) : bool :=
  match a, b with
  | [], [] => true
  | x :: a', y :: b' => ptoken_eqb x y && ptokens_eqb a' b'
  | _, _ => false end.
Fixpoint tree_eqb (a b : tree) : bool :=
  match a, b with
  | Leaf x, Leaf y => Nat.eqb x y
  | Bin o l r, Bin o' l' r' => binop_eqb o o' && tree_eqb l l' && tree_eqb r r'
  | Pre o u, Pre o' u' => unop_eqb o o' && tree_eqb u u'
  | _, _ => false end.

Definition check_c11 (c : c11) : bool :=
  ptokens_eqb (pflatten (src_render (c11_tree c))) (c11_tokens c)
  && match src_pparse (c11_tokens c) with Some t => tree_eqb t (c11_tree c) | None => false end.
Fixpoint c11_from (i : Z) (l : list c11) : list Z :=
  match l with
  | [] => []
  | c :: cs => if check_c11 c then c11_from (i + 1)%Z cs else i :: c11_from (i + 1)%Z cs
  end.
Definition c11_failures (l : list c11) : list Z := c11_from 0%Z l.
Definition c11_out (c : c11) := (pflatten (src_render (c11_tree c)), src_pparse (c11_tokens c)).
