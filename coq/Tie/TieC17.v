(* Correspondence for C17: the real LP text (tokenised) vs the model writer, and the independent reader on the real text. *)
From Coq Require Import QArith ZArith Bool List String.
From Rooc Require Import Base.XQ Model.Exp Model.Bounds Model.Linearize Model.LpFormat.
Import ListNotations.
Local Close Scope Q_scope.

Record c17 := mkC17 { c17_model : linmodel; c17_tokens : list ltok }.
(* 0 = ok ; 1 = writer tokens differ ; 2 = reader on the real text does not give the model's denotation *)
Definition c17_code (c : c17) : Z :=
  if negb (leqb ltok_eqb (lp_write (c17_model c)) (c17_tokens c)) then 1%Z
  else match lp_read (c17_tokens c) with
       | Some f => if lpfile_eqb f (denote (c17_model c)) then 0%Z else 2%Z
       | None => 2%Z
       end.
Fixpoint c17_from (i : Z) (l : list c17) : list Z :=
  match l with
  | [] => []
  | c :: cs => if Z.eqb (c17_code c) 0 then c17_from (i + 1)%Z cs else i :: c17_from (i + 1)%Z cs
  end.
Definition c17_failures (l : list c17) : list Z := c17_from 0%Z l.
Definition c17_out (c : c17) := (c17_code c, lp_write (c17_model c), lp_read (c17_tokens c)).

(* the independent reader alone, on the real text: a concrete witness that the exported text denotes another model *)
Definition c17_reader_differs (c : c17) : bool :=
  match lp_read (c17_tokens c) with
  | Some f => negb (lpfile_eqb f (denote (c17_model c)))
  | None => true
  end.
Fixpoint c17_reader_from (i : Z) (l : list c17) : list Z :=
  match l with
  | [] => []
  | c :: cs => if c17_reader_differs c then i :: c17_reader_from (i + 1)%Z cs else c17_reader_from (i + 1)%Z cs
  end.
Definition c17_reader_failures (l : list c17) : list Z := c17_reader_from 0%Z l.

(* the premise of the whole-file round-trip theorem on the tied models (not a failure by itself) *)
Fixpoint c17_unmet_from (i : Z) (l : list c17) : list Z :=
  match l with
  | [] => []
  | c :: cs => if lp_okb (c17_model c) then c17_unmet_from (i + 1)%Z cs else i :: c17_unmet_from (i + 1)%Z cs
  end.
Definition c17_premise_unmet (l : list c17) : list Z := c17_unmet_from 0%Z l.
