(* Correspondence check for the compiler core: Linearizer::linearize vs Model.Linearize.compile. *)
From Coq Require Import QArith ZArith Bool List String.
From Rooc Require Import Base.XQ Model.Exp Model.Bounds Model.Linearize.
Import ListNotations.
Local Close Scope Q_scope.

Record lcase := mkLCase { lc_model : model; lc_expect : lerr + linmodel }.

Fixpoint list_eqb {A} (f : A -> A -> bool) (a b : list A) : bool :=
  match a, b with
  | [], [] => true
  | x :: xs, y :: ys => f x y && list_eqb f xs ys
  | _, _ => false
  end.

Definition vtype_close (a b : vtype) : bool :=
  match a, b with
  | TBoolean, TBoolean => true
  | TIntegerRange l1 u1, TIntegerRange l2 u2 => Z.eqb l1 l2 && Z.eqb u1 u2
  | TNonNegativeReal l1 u1, TNonNegativeReal l2 u2 | TReal l1 u1, TReal l2 u2 => xq_close l1 l2 && xq_close u1 u2
  | _, _ => false
  end.

Definition dir_eqb (a b : direction) : bool :=
  match a, b with DMin, DMin | DMax, DMax | DSatisfy, DSatisfy => true | _, _ => false end.

Definition row_close (a b : lrow) : bool :=
  String.eqb (lr_name a) (lr_name b) && cmp_eqb (lr_cmp a) (lr_cmp b) && xq_close (lr_rhs a) (lr_rhs b)
  && list_eqb xq_close (lr_coeffs a) (lr_coeffs b).

Definition lm_close (a b : linmodel) : bool :=
  list_eqb String.eqb (lm_vars a) (lm_vars b)
  && forallb (fun v => match al_get (lm_domain a) v, al_get (lm_domain b) v with
                       | Some x, Some y => vtype_close x y | _, _ => false end) (lm_vars a)
  && Nat.eqb (List.length (lm_domain a)) (List.length (lm_domain b))
  && list_eqb row_close (lm_rows a) (lm_rows b)
  && list_eqb xq_close (lm_objective a) (lm_objective b)
  && xq_close (lm_offset a) (lm_offset b)
  && dir_eqb (lm_dir a) (lm_dir b).

Definition lerr_eqb (a b : lerr) : bool :=
  match a, b with
  | ENonLinear, ENonLinear | EDivZero, EDivZero | EEmptyAgg, EEmptyAgg | EUnimplemented, EUnimplemented
  | ENonBinary, ENonBinary => true
  | EVarDeclared x, EVarDeclared y => String.eqb x y
  | EMissingBounds x, EMissingBounds y => list_eqb String.eqb x y
  | _, _ => false
  end.

Definition check_lcase (c : lcase) : bool :=
  match compile (lc_model c), lc_expect c with
  | inl e1, inl e2 => lerr_eqb e1 e2
  | inr l1, inr l2 => lm_close l1 l2
  | _, _ => false
  end.

Fixpoint lfailures_from (i : Z) (l : list lcase) : list Z :=
  match l with
  | [] => []
  | c :: cs => if check_lcase c then lfailures_from (i + 1)%Z cs else i :: lfailures_from (i + 1)%Z cs
  end.
Definition lfailures (l : list lcase) : list Z := lfailures_from 0%Z l.
Definition lmodel_out (c : lcase) := compile (lc_model c).

(* the SHAPE of the two outputs agrees (same verdict kind, variables, rows with their names and relations, domain kinds):
   a correspondence mismatch is considered as a numerical tie of the bound analysis only if nothing but numbers differs *)
Definition vkind_eqb (a b : vtype) : bool :=
  match a, b with
  | TBoolean, TBoolean | TIntegerRange _ _, TIntegerRange _ _ | TNonNegativeReal _ _, TNonNegativeReal _ _ | TReal _ _, TReal _ _ => true
  | _, _ => false
  end.
Definition shape_same (c : lcase) : bool :=
  match compile (lc_model c), lc_expect c with
  | inl e1, inl e2 => lerr_eqb e1 e2
  | inr a, inr b =>
      list_eqb String.eqb (lm_vars a) (lm_vars b)
      && forallb (fun v => match al_get (lm_domain a) v, al_get (lm_domain b) v with Some x, Some y => vkind_eqb x y | _, _ => false end) (lm_vars a)
      && list_eqb (fun r1 r2 => String.eqb (lr_name r1) (lr_name r2) && cmp_eqb (lr_cmp r1) (lr_cmp r2)
                                && Nat.eqb (List.length (lr_coeffs r1)) (List.length (lr_coeffs r2))) (lm_rows a) (lm_rows b)
      && dir_eqb (lm_dir a) (lm_dir b)
  | _, _ => false
  end.
Fixpoint shape_diff_from (i : Z) (l : list lcase) : list Z :=
  match l with
  | [] => []
  | c :: cs => if shape_same c then shape_diff_from (i + 1)%Z cs else i :: shape_diff_from (i + 1)%Z cs
  end.
Definition shape_differs (l : list lcase) : list Z := shape_diff_from 0%Z l.
