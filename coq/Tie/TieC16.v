(* Correspondence for C16: a builder expression (as the public API constructed it), the name-based tree
   ModelBuilder::into_model produced for it, and values BuilderSolution::eval returned at fixed assignments. *)
From Coq Require Import QArith ZArith Bool List String.
From Rooc Require Import Base.XQ Model.Exp Model.Sem Model.Builder.
Import ListNotations.
Local Close Scope Q_scope.

Record c16 := mkC16 {
  c16_names : list string; c16_expr : bexpr; c16_model_exp : option exp; c16_points : list (list xq * xq) }.

Definition q_of (x : xq) : Q := match x with Fin q => q | _ => 0%Q end.
Definition point_ok (e : bexpr) (p : list xq * xq) : bool :=
  let vals := fst p in
  match bevalQ (fun i => q_of (nth i vals (Fin 0%Q))) e with
  | Some q => xq_close (Fin q) (snd p)
  | None => negb (xq_is_finite (snd p))          (* division by zero / empty min or max: the f64 code yields inf or NaN *)
  end.
Definition check_c16 (c : c16) : bool :=
  match c16_model_exp c with Some m => exp_close (to_exp (c16_names c) (c16_expr c)) m | None => true end
  && forallb (point_ok (c16_expr c)) (c16_points c).
Fixpoint c16_from (i : Z) (l : list c16) : list Z :=
  match l with
  | [] => []
  | c :: cs => if check_c16 c then c16_from (i + 1)%Z cs else i :: c16_from (i + 1)%Z cs
  end.
Definition c16_failures (l : list c16) : list Z := c16_from 0%Z l.
Definition c16_out (c : c16) :=
  (to_exp (c16_names c) (c16_expr c), map (fun p => bevalQ (fun i => q_of (nth i (fst p) (Fin 0%Q))) (c16_expr c)) (c16_points c)).

(* ---------- call sequences: the model ModelBuilder::into_model returned after a sequence of public calls
   (None = add_var panicked on a duplicate name) against Model.BuilderOps *)
From Rooc Require Import Model.Bounds Model.Linearize Model.BuilderOps Tie.TieC01 Tie.TieC06.
Record opscase := mkOps { oc_ops : list bop; oc_impl : option (direction * exp * list constr * list (string * vtype * bool)) }.
Definition dir_eqb (a b : direction) : bool :=
  match a, b with DMin, DMin | DMax, DMax | DSatisfy, DSatisfy => true | _, _ => false end.
Fixpoint leq2 {A B} (f : A -> B -> bool) (a : list A) (b : list B) : bool :=
  match a, b with [], [] => true | x :: xs, y :: ys => f x y && leq2 f xs ys | _, _ => false end.
Definition check_ops (c : opscase) : bool :=
  match brun b_init (oc_ops c), oc_impl c with
  | Some s, Some (d, o, cs, ds) =>
      let m := into_model s in
      dir_eqb (m_dir m) d && exp_close (m_obj m) o && list_eqb constr_close (m_constraints m) cs
      && leq2 (fun (x : string * dvar) (y : string * vtype * bool) =>
                     String.eqb (fst x) (fst (fst y)) && vtype_close (dv_type (snd x)) (snd (fst y)) && Bool.eqb (dv_used (snd x)) (snd y))
                  (m_domain m) ds
  | None, None => true
  | _, _ => false
  end.
Fixpoint ops_from (i : Z) (l : list opscase) : list Z :=
  match l with
  | [] => []
  | c :: cs => if check_ops c then ops_from (i + 1)%Z cs else i :: ops_from (i + 1)%Z cs
  end.
Definition ops_failures (l : list opscase) : list Z := ops_from 0%Z l.
Definition ops_out (c : opscase) := option_map into_model (brun b_init (oc_ops c)).
