(* Correspondence for C16: a builder expression (as the public API constructed it), the name-based tree
   ModelBuilder::into_model produced for it, and values BuilderSolution::eval returned at fixed assignments. *)
From Coq Require Import QArith ZArith Bool List String.
From Rooc Require Import Base.XQ Model.Exp Model.Sem Model.Builder.
Import ListNotations.
Local Close Scope Q_scope.

Record c16 := mkC16 {
  c16_names : list string; c16_expr : bexpr; c16_model_exp : option exp; c16_points : list (list xq * xq) }.

Definition q_of (x : xq) : Q := match x with Fin q => q | _ => 0%Q end.
Definition point_ok (e : bexpr) (p : list xq * xq) : bool :=
  let vals := fst p in
  match bevalQ (fun i => q_of (nth i vals (Fin 0%Q))) e with
  | Some q => xq_close (Fin q) (snd p)
  | None => negb (xq_is_finite (snd p))          (* division by zero / empty min or max: the f64 code yields inf or NaN *)
  end.
Definition check_c16 (c : c16) : bool :=
  match c16_model_exp c with Some m => exp_close (to_exp (c16_names c) (c16_expr c)) m | None => true end
  && forallb (point_ok (c16_expr c)) (c16_points c).
Fixpoint c16_from (i : Z) (l : list c16) : list Z :=
  match l with
  | [] => []
  | c :: cs => if check_c16 c then c16_from (i + 1)%Z cs else i :: c16_from (i + 1)%Z cs
  end.
Definition c16_failures (l : list c16) : list Z := c16_from 0%Z l.
Definition c16_out (c : c16) :=
  (to_exp (c16_names c) (c16_expr c), map (fun p => bevalQ (fun i => q_of (nth i (fst p) (Fin 0%Q))) (c16_expr c)) (c16_points c)).
