(* Correspondence for C12: (a) arithmetic expression trees and the tokens Exp's Display printed for them (same
   check as C11, against the proved printer); (b) rows of rendered linear models: the sign pattern of the non-zero
   coefficients and the tokens of the row's left-hand side as printed by LinearModel's Display. *)
From Coq Require Import ZArith Bool List String.
From Rooc Require Import Model.Exp Model.Pratt Model.Printer Model.LinRow Tie.TieC11.
Import ListNotations.

Inductive c12 := CExp (c : c11) | CRow (signs : list bool) (toks : list ptoken).

Definition check_c12 (c : c12) : bool :=
  match c with
  | CExp e => check_c11 e
  | CRow signs toks =>
      ptokens_eqb (row_tokens signs) toks &&
      match row_tree signs, src_pparse toks with
      | Some t, Some t' => tree_eqb t t'
      | None, _ => match signs with [] => true | _ => false end
      | _, _ => false
      end
  end.
Fixpoint c12_from (i : Z) (l : list c12) : list Z :=
  match l with
  | [] => []
  | c :: cs => if check_c12 c then c12_from (i + 1)%Z cs else i :: c12_from (i + 1)%Z cs
  end.
Definition c12_failures (l : list c12) : list Z := c12_from 0%Z l.
Definition c12_out (c : c12) :=
  match c with
  | CExp e => (pflatten (src_render (c11_tree e)), src_pparse (c11_tokens e))
  | CRow signs toks => (row_tokens signs, src_pparse toks)
  end.
