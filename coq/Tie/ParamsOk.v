(* Source-level constants regenerated on every run must be the ones the model was proved with. *)
From Coq Require Import QArith ZArith.
From Rooc Require Import Base.XQ Model.Bounds Gen.SrcParams.
Example tolerance_matches_source : default_tolerance = Fin src_default_tolerance.
Proof. reflexivity. Qed.
Example max_steps_matches_source : Z.of_nat default_max_steps = src_default_max_steps.
Proof. vm_compute. reflexivity. Qed.
