(* Correspondence for C13/C14: standard form, start tableau, pivot trace and final result. *)
From Coq Require Import QArith ZArith Bool List String.
From Rooc Require Import Base.XQ Model.Exp Model.Bounds Model.Linearize Model.Standardize Model.Tableau Tie.TieC01.
Import ListNotations.
Local Close Scope Q_scope.

Inductive tres := RNone | ROpt (t : tableau) | RUnbAt (t : tableau) | RLim | ROther.
Record stepcase := mkStep { st_pre : tableau; st_enter : nat; st_leave : nat; st_post : tableau }.
Record tcase := mkTCase {
  tc_model : linmodel; tc_std : serr + stdmodel; tc_tab : option (terr + tableau);
  tc_trace : list stepcase; tc_res : tres }.

Definition xl_close := list_eqb xq_close.
Definition eq_close (a b : eqcon) := xl_close (eq_coeffs a) (eq_coeffs b) && xq_close (eq_rhs a) (eq_rhs b).
Definition sm_close (a b : stdmodel) : bool :=
  list_eqb String.eqb (sm_vars a) (sm_vars b) && xq_close (sm_offset a) (sm_offset b)
  && xl_close (sm_obj a) (sm_obj b) && Bool.eqb (sm_flip a) (sm_flip b) && list_eqb eq_close (sm_cons a) (sm_cons b).
Definition t_close (a b : tableau) : bool :=
  xl_close (t_c a) (t_c b) && list_eqb xl_close (t_a a) (t_a b) && xl_close (t_b a) (t_b b)
  && list_eqb Nat.eqb (t_basis a) (t_basis b) && xq_close (t_value a) (t_value b)
  && xq_close (t_offset a) (t_offset b) && Bool.eqb (t_flip a) (t_flip b).
Definition serr_eqb (a b : serr) : bool :=
  match a, b with
  | EInvalidDomain, EInvalidDomain | EUnimplementedOpt, EUnimplementedOpt | EUnavailableCmp, EUnavailableCmp
  | EMissingDomain, EMissingDomain => true | _, _ => false end.
Definition terr_eqb (a b : terr) : bool :=
  match a, b with TInfeasible, TInfeasible | TInvalidBasis, TInvalidBasis | TSimplexError, TSimplexError => true | _, _ => false end.

(* one observed pivot: the model's step on the implementation's own pre-state must choose the same
   entering column and leaving row and produce the same post-state (for one of the two entering rules) *)
Definition step_ok (s : stepcase) : bool :=
  let ok b := match step_inner (st_pre s) [] b with
              | SPivot t' h tr => Nat.eqb h (st_enter s) && Nat.eqb tr (st_leave s) && t_close t' (st_post s)
              | _ => false end in
  ok false || ok true.
Definition final_ok (r : tres) : bool :=
  match r with
  | ROpt t => match step_inner t [] false with SFinished => true | _ => false end
  | RUnbAt t => match step_inner t [] false with SUnbounded => true | _ => match step_inner t [] true with SUnbounded => true | _ => false end end
  | _ => true
  end.

(* 0 = agrees ; 1 = hard mismatch ; 2 = two-phase start tableau differs (phase-1 pivot choices depend on f64 noise) *)
Definition check_tcase_code (c : tcase) : Z :=
  match to_standard_form (tc_model c), tc_std c with
  | inl e1, inl e2 => if serr_eqb e1 e2 then 0 else 1
  | inr s1, inr s2 =>
      if negb (sm_close s1 s2) then 1 else
      if negb (forallb step_ok (tc_trace c) && final_ok (tc_res c)) then 1 else
      match tc_tab c with
      | None => 0
      | Some expect =>
          match into_tableau s1, expect with
          | inl e1, inl e2 => if terr_eqb e1 e2 then 0 else 2
          | inr t1, inr t2 => if t_close t1 t2 then 0 else 2
          | _, _ => 2
          end
      end
  | _, _ => 1
  end%Z.

Fixpoint tcodes_from (want : Z) (i : Z) (l : list tcase) : list Z :=
  match l with
  | [] => []
  | c :: cs => if Z.eqb (check_tcase_code c) want then i :: tcodes_from want (i + 1)%Z cs else tcodes_from want (i + 1)%Z cs
  end.
Definition tfailures (l : list tcase) : list Z := tcodes_from 1%Z 0%Z l.
Definition tsoft (l : list tcase) : list Z := tcodes_from 2%Z 0%Z l.
Definition tmodel_out (c : tcase) :=
  match to_standard_form (tc_model c) with
  | inl e => (inl e, None)
  | inr s => (inr s, Some (into_tableau s))
  end.

(* the premises of the two C13 transfer theorems on the implementation's own output: lin_okb of the input and pairwise
   distinct column names of the implementation's standard form (3 = a premise is not met; not a failure by itself) *)
Fixpoint nodupb (l : list string) : bool :=
  match l with [] => true | x :: r => negb (existsb (String.eqb x) r) && nodupb r end.
Definition premises_code (c : tcase) : Z :=
  match tc_std c with
  | inr s2 => if lin_okb (tc_model c) && nodupb (sm_vars s2) then 0 else 3
  | inl _ => 0
  end%Z.
Fixpoint pcodes_from (i : Z) (l : list tcase) : list Z :=
  match l with
  | [] => []
  | c :: cs => if Z.eqb (premises_code c) 3 then i :: pcodes_from (i + 1)%Z cs else pcodes_from (i + 1)%Z cs
  end.
Definition tpremises_unmet (l : list tcase) : list Z := pcodes_from 0%Z l.
