(* Correspondence check for C10: the harness prints, for each input tree, what the implementation's
   Exp::simplify and Exp::flatten returned; the model must return the same trees. *)
From Coq Require Import QArith ZArith Bool List String.
From Rooc Require Import Base.XQ Model.Exp Model.Simplify Model.Flatten.
Import ListNotations.
Local Close Scope Q_scope.

Record case := mkcase { c_in : exp; c_simpl : exp; c_flat : exp }.

Definition check_case (c : case) : bool :=
  match simplify (c_in c) with Some s => exp_close s (c_simpl c) | None => false end
  && match flatten (c_in c) with Some f => exp_close f (c_flat c) | None => false end.

Fixpoint failures_from (i : Z) (l : list case) : list Z :=
  match l with
  | [] => []
  | c :: cs => if check_case c then failures_from (i + 1)%Z cs else i :: failures_from (i + 1)%Z cs
  end.
Definition failures (l : list case) : list Z := failures_from 0%Z l.
Definition model_out (c : case) := (simplify (c_in c), flatten (c_in c)).
