#!/usr/bin/env python3-vt
"""Untrusted exact solver: decides each model with z3 (exact rational arithmetic) and emits a certificate for the
Coq-verified checker.  Nothing it says is believed: a wrong or missing certificate can only make a case
`uncertified` (counted), never certify something false.

usage: exactlp.py models.jsonl certs.jsonl
  certs.jsonl: one JSON per model: {"id":..,"cert":"<Gallina term>","claim":"opt|inf|unb|none","value":"n/d"}
"""
import sys, json
from fractions import Fraction
import z3


def fr(s):
    if s in ("inf", "-inf", "NaN"):
        return None
    return Fraction(float(s)) if not isinstance(s, (int,)) else Fraction(s)


def q(f):
    f = Fraction(f)
    n = f.numerator
    return "((%d) # %d)" % (n, f.denominator) if n < 0 else "(%d # %d)" % (n, f.denominator)


def ql(v):
    return "[" + "; ".join(q(x) for x in v) + "]"


def zv(x):
    """z3 rational value -> Fraction"""
    if z3.is_int_value(x):
        return Fraction(x.as_long())
    return Fraction(x.numerator_as_long(), x.denominator_as_long())


def rows_all(m):
    """(a, cmp, b) rows in the order agreed with Cert/Bridge.v"""
    n = len(m["vars"])
    rows = []
    for r in m["rows"]:
        a = [fr(x) for x in r["a"]]
        b = fr(r["b"])
        if r["cmp"] not in ("le", "ge", "eq") or b is None or any(x is None for x in a):
            return None
        rows.append((a, r["cmp"], b))
    for j, t in enumerate(m["types"]):
        unit = [Fraction(1 if i == j else 0) for i in range(n)]
        k = t["k"]
        if k == "Bool":
            lo, hi = Fraction(0), Fraction(1)
        elif k == "Int":
            lo, hi = Fraction(t["lo"]), Fraction(t["hi"])
        else:
            lo = None if t["lo"] == "-inf" else fr(t["lo"])
            hi = None if t["hi"] == "inf" else fr(t["hi"])
            if (t["lo"] not in ("-inf",) and lo is None) or (t["hi"] not in ("inf",) and hi is None):
                return None
            if k == "NN":
                lo = max(lo, Fraction(0)) if lo is not None else Fraction(0)
        if lo is not None:
            rows.append((unit, "ge", lo))
        if hi is not None:
            rows.append((unit, "le", hi))
    return rows


def zq(f):
    return z3.RealVal(str(Fraction(f)))


def solve_lp(m, rows):
    """returns (claim, cert_term, value) for the LP relaxation"""
    n = len(m["vars"])
    mx = m["dir"] == "max"
    obj = [Fraction(0)] * n if m["dir"] == "sat" else [fr(x) for x in m["obj"]]
    if any(x is None for x in obj):
        return ("none", "CNone", None)
    xs = [z3.Real("x%d" % i) for i in range(n)]

    def rowc(vec, a, c, b):
        e = z3.Sum([zq(a[i]) * vec[i] for i in range(n)]) if n else zq(0)
        return e <= zq(b) if c == "le" else (e >= zq(b) if c == "ge" else e == zq(b))

    s = z3.Solver()
    for (a, c, b) in rows:
        s.add(rowc(xs, a, c, b))
    if s.check() != z3.sat:
        # Farkas: y with signs (min-form: >= rows y>=0, <= rows y<=0), sum y a = 0, y.b > 0
        ys = [z3.Real("y%d" % i) for i in range(len(rows))]
        f = z3.Solver()
        for yi, (a, c, b) in zip(ys, rows):
            if c == "ge":
                f.add(yi >= 0)
            elif c == "le":
                f.add(yi <= 0)
        for j in range(n):
            f.add(z3.Sum([ys[i] * zq(rows[i][0][j]) for i in range(len(rows))]) == 0)
        f.add(z3.Sum([ys[i] * zq(rows[i][2]) for i in range(len(rows))]) == 1)
        if f.check() == z3.sat:
            mdl = f.model()
            y = [zv(mdl.eval(v, model_completion=True)) for v in ys]
            return ("inf", "(CInf %s)" % ql(y), None)
        return ("none", "CNone", None)
    # feasible: optimise
    o = z3.Optimize()
    for (a, c, b) in rows:
        o.add(rowc(xs, a, c, b))
    objective = z3.Sum([zq(obj[i]) * xs[i] for i in range(n)]) if n else zq(0)
    h = o.maximize(objective) if mx else o.minimize(objective)
    if o.check() != z3.sat:
        return ("none", "CNone", None)
    val = o.upper(h) if mx else o.lower(h)
    if not z3.is_rational_value(val) and not z3.is_int_value(val):
        # unbounded: feasible x and a recession direction d with c.d = +-1
        mdl = s.model()
        x0 = [zv(mdl.eval(v, model_completion=True)) for v in xs]
        ds = [z3.Real("d%d" % i) for i in range(n)]
        u = z3.Solver()
        for (a, c, b) in rows:
            e = z3.Sum([zq(a[i]) * ds[i] for i in range(n)])
            u.add(e <= 0 if c == "le" else (e >= 0 if c == "ge" else e == 0))
        u.add(z3.Sum([zq(obj[i]) * ds[i] for i in range(n)]) == (1 if mx else -1))
        if u.check() == z3.sat:
            dm = u.model()
            d = [zv(dm.eval(v, model_completion=True)) for v in ds]
            return ("unb", "(CUnb %s %s)" % (ql(x0), ql(d)), None)
        return ("none", "CNone", None)
    mdl = o.model()
    x0 = [zv(mdl.eval(v, model_completion=True)) for v in xs]
    opt = sum(obj[i] * x0[i] for i in range(n))
    # dual certificate: signs, sum y a = c, y.b = opt
    ys = [z3.Real("y%d" % i) for i in range(len(rows))]
    dsl = z3.Solver()
    for yi, (a, c, b) in zip(ys, rows):
        sgn = -1 if mx else 1
        if c == "ge":
            dsl.add(sgn * yi >= 0)
        elif c == "le":
            dsl.add(sgn * yi <= 0)
    for j in range(n):
        dsl.add(z3.Sum([ys[i] * zq(rows[i][0][j]) for i in range(len(rows))]) == zq(obj[j]))
    dsl.add(z3.Sum([ys[i] * zq(rows[i][2]) for i in range(len(rows))]) == zq(opt))
    if dsl.check() == z3.sat:
        ym = dsl.model()
        y = [zv(ym.eval(v, model_completion=True)) for v in ys]
        return ("opt", "(COpt %s %s)" % (ql(x0), ql(y)), opt)
    return ("none", "CNone", None)


def decide(m):
    rows = rows_all(m)
    if rows is None:
        return {"claim": "none", "cert": "CNone"}
    kinds = set(t["k"] for t in m["types"])
    off = Fraction(0) if m["dir"] == "sat" else (fr(m["offset"]) or Fraction(0))
    if kinds <= {"NN", "Real"}:
        claim, cert, val = solve_lp(m, rows)
        return {"claim": claim, "cert": cert, "value": str(val + off) if val is not None else None}
    if kinds <= {"Bool", "Int"}:
        return {"claim": "enum", "cert": "CEnum"}
    # mixed: only infeasibility of the relaxation can be certified here
    claim, cert, val = solve_lp(m, rows)
    if claim == "inf":
        return {"claim": claim, "cert": cert}
    return {"claim": "none", "cert": "CNone"}


def primal_opt(m, rows):
    """exact optimal point of the LP (None if not optimal)"""
    claim, cert, val = solve_lp(m, rows)
    if claim != "opt":
        return None
    import re
    xs = cert[len("(COpt "):].split("] [")[0]
    return xs + "]"


def sens(m):
    """for every named row: the optimal points of the problem with that rhs moved by +-delta"""
    rows = rows_all(m)
    if rows is None or not set(t["k"] for t in m["types"]) <= {"NN", "Real"} or m["dir"] == "sat":
        return {"claim": "none"}
    claim, cert, val = solve_lp(m, rows)
    if claim != "opt":
        return {"claim": claim}
    x, y = cert[len("(COpt "):-1].split("] [")
    x, y = x + "]", "[" + y
    delta = Fraction(1, 8)
    out = []
    for i, r in enumerate(m["rows"]):
        if not r["name"]:
            continue
        pts = []
        for d in (delta, -delta):
            rows2 = list(rows)
            a, c, b = rows2[i]
            rows2[i] = (a, c, b + d)
            pts.append(primal_opt(m, rows2))
        if pts[0] is None or pts[1] is None:
            continue
        out.append({"row": i, "name": r["name"], "delta": q(delta), "xp": pts[0], "xm": pts[1]})
    return {"claim": "opt", "x": x, "y": y, "rows": out, "value": str(val)}


def main():
    if sys.argv[1] == "--sens":
        out = open(sys.argv[3], "w")
        for line in open(sys.argv[2]):
            m = json.loads(line)
            try:
                r = sens(m)
            except Exception as ex:
                r = {"claim": "none", "error": repr(ex)}
            r["id"] = m["id"]
            out.write(json.dumps(r) + "\n")
        out.close()
        return
    out = open(sys.argv[2], "w")
    for line in open(sys.argv[1]):
        m = json.loads(line)
        try:
            r = decide(m)
        except Exception as ex:  # untrusted helper: any failure is just an uncertified case
            r = {"claim": "none", "cert": "CNone", "error": repr(ex)}
        r["id"] = m["id"]
        out.write(json.dumps(r) + "\n")
    out.close()


if __name__ == "__main__":
    main()
