#!/usr/bin/env python3
"""Regenerates MANIFEST.json from the table below (kept in one place so the manifest is always valid)."""
import json, os, subprocess
V = os.path.dirname(os.path.dirname(os.path.abspath(__file__)))
props = [json.loads(l)["id"] for l in open(os.path.join(V, "properties.jsonl"))]

TB = ("Trusted: Coq 8.16.1 kernel + vm_compute; std-lib axioms named in the evidence file (Coq.Reals: sig_forall_dec, "
      "functional_extensionality_dep) where the theorem quantifies over real assignments; hand-written Gallina model tied to /repo by the "
      "correspondence check (Rust harness + exact f64->Q printer + Python driver); f64 rounding not modelled.")

CORE_TIE = ("The whole compiler core (bound inference, every lowering arm, logic lowering, main loop, naming, output assembly) is modelled in Gallina "
            "(coq/Model/Bounds.v, Linearize.v) and compared structurally with Linearizer::linearize on every run (~2.4k models quick / 40k thorough); "
            "the property is also evaluated on the implementation itself (exact grid projection test with Boolean enumeration + Fourier-Motzkin).")

CHECKS = {
 "C01": dict(
    category="proof",
    text="Proved in Coq END TO END for the affine fragment: for every model whose constraints are affine after the pre-processing rewrites, `compile m = Ok L` implies that L has exactly the source's feasible set "
         "(C01_projection_affine, and in the projection form of the property C01_projection_affine_statement_form) - through every stage of compile: domain tightening, flatten/simplify, the logic-constraint test, Exp::linearize, "
         "the main loop with its step bound, row-name de-duplication, variable sorting, coefficient extraction, published domains; premises (record affine_model: well-formed domains with non-NaN bounds, every declared variable used, plain arithmetic sides, constraints affine after flatten/simplify and not taken by the logic-constraint test; decided by the boolean affine_modelb with a soundness lemma and evaluated on every tied model: about 40 % of the generated models lie in the fragment) with a non-vacuity example. "
         "Proved END TO END as well for the arithmetic fragment with abs, min and max (C01_projection_abs, Proof/CompileAbs.v): + - * / by constants, unary minus, abs, min and max nested to any depth, the dominated-operand pruning of min / max included (Proof/Pruning.v), together with logic assertions over Boolean variables lowered to one affine row (C01_affine_assertion_row: the row holds exactly when the formula has the asserted value) and comparisons of such formulas with constants (normalised into an assertion, a tautology or a contradiction), where the compiler creates auxiliary "
         "variables and selectors, pushes one-sided, big-M or selector rows back into its queue and relies on the bound analysis - by a state invariant carried through Exp::linearize, the main loop and the read-out (premises: record abs_model incl. the "
         "decidable trace condition compile_trace; decided by abs_modelb on every tied model). "
         "PARTIAL for models with other logic (reified logic values inside arithmetic, assertions that need witnesses): proved for all inputs are every lowering arm's row pattern in both directions "
         "(big-M abs, selector min/max, dominated operands, reified and/or/xor/implies/iff, witnesses), soundness of every bound the rewrites read, "
         "value preservation of flatten/simplify, and the frame property of all linearizer actions; the full projection theorem for them is stated "
         "(C01_projection_statement) and not proved. " + CORE_TIE,
    design_ref="DESIGN.md section 4 / C01",
    technique="Coq proof (end-to-end projection theorem on the affine fragment; per-arm lemmas beyond it) over a full hand-written model + per-run structural correspondence + projection oracle on the implementation",
    note=TB + " Genuine defects F1 and F16 found by this check were repaired in /repo (fix: commits)."),
 "C02": dict(
    category="proof",
    text="Proved in Coq END TO END for the affine fragment (same premises as C01): through the whole of compile the linear objective (coefficients and constant) equals the source objective at every assignment "
         "(C02_objective_affine), hence source-optimal and linear-optimal points and values coincide for min and max (C02_optimum_affine); and for the arithmetic fragment with abs, min and max (premises as C01_projection_abs) in the full form of the statement "
         "(C02_objective_abs: no extension of a source point does better than its source value and one attains it; C02_optimum_abs: an optimal point of the compiled model is feasible and optimal for the source with the same value; C02_optimum_abs_converse: an optimal point of the source extends to an optimal point of the compiled model; C02_optimal_value_abs, C02_feasible_together_abs, C02_unbounded_together_abs: the two models have the same optimal value, are feasible together and unbounded together - the three answers a solver can give; C02_answers_affine: the same on the affine fragment). PARTIAL beyond them: for an affine objective inside any model the emitted coefficients and "
         "offset equal the source objective; one-sided and exact arm patterns relax in the right direction and are tight; the full statement (C02_objective_statement) is stated, not proved. " + CORE_TIE,
    design_ref="DESIGN.md section 4 / C02",
    technique="Coq proof (partial) + per-run structural correspondence of objective map/offset/direction + best-extension objective oracle on the implementation",
    note=TB),
 "C03": dict(
    category="translation_validation",
    text="Whole programs as source text (fully parenthesised arithmetic, abs/min/max blocks, logic operators, comparisons, bare assertions, named constraints, Boolean and small integer-range "
         "declarations) go through RoocSolver::try_new(text)?.solve_using(auto_solver). The model each text denotes is handed to ref_solve, an exhaustive reference interpreter proved sound and "
         "complete in Coq over the enumerated box; compared: solution iff satisfiable, returned values satisfy the text, reported objective = objective at the returned values, no strictly better "
         "assignment exists, unsatisfiable texts get the Infeasible verdict (never a solution or a compile error). Genuine defect F2 (variable-free contradictory model solved) was repaired.",
    design_ref="DESIGN.md section 4 / C03",
    technique="Coq-verified exhaustive reference interpreter (oracle) + per-program translation validation of the whole pipeline in watchdogged workers",
    note="Trusted: Coq kernel + vm_compute; the generator's text printer and AST->Gallina printer; exact f64->Q conversion; Python comparison (1e-6). Restricted to Boolean/integer-range variables."),
 "C04": dict(
    category="translation_validation",
    text="Every solution returned by any of the five built-in entry points (solve_milp_lp_problem, auto_solver, solve_real_lp_problem_micro_lp/_clarabel/_slow_simplex) "
         "on seeded small models is converted exactly to rationals and passed to check_solution, a checker proved sound in Coq (axiom-free): rows and domains "
         "(bounds, integrality, 0/1) within 1e-6, objective = objective function incl. offset, exactly one value per variable, named-row activities = row left-hand sides.",
    design_ref="DESIGN.md section 4 / C04",
    technique="Coq-verified checker (soundness theorem over Q) + per-output translation validation of every solver entry point in watchdogged worker processes",
    note="Trusted: Coq kernel + vm_compute; exact f64->Q conversion and printers; the solvers themselves (microlp, Clarabel via good_lp) are external crates and are validated, not modelled."),
 "C05": dict(
    category="translation_validation",
    text="Certificate checkers proved sound in Coq over Q (axiom-free): optimality (primal point + dual vector, weak duality), infeasibility (Farkas), unboundedness "
         "(feasible point + improving recession ray). An untrusted exact solver (z3) produces certificates; every accepted certificate fixes the true verdict/optimum of the model, "
         "against which each built-in solver's verdict and value (1e-6 relative) are compared; all-integer models are decided by exhaustive enumeration inside Coq; hangs are caught by a process watchdog. "
         "Known findings F18/F19 (microlp) and F20 (Clarabel status mapping) are recorded; F8 and the Satisfy-objective defect were repaired.",
    design_ref="DESIGN.md section 4 / C05",
    technique="Coq-verified LP certificate checkers + untrusted exact solver as certificate producer + per-model translation validation of every solver entry point",
    note="Trusted: Coq kernel + vm_compute; Cert/Bridge.v translation (bounds as rows) and integer-box enumeration (executed, not yet proved); JSON/Gallina printers; Python comparison. z3 is NOT trusted. Mixed-integer models are certified only when their relaxation is infeasible."),
 "C06": dict(
    category="proof",
    text="PARTIAL proof. A reference expander in Gallina (Model.Expand: ranges, arrays, enumerate, graph functions, nested iteration with scoping and destructuring, index flattening, the folds of every aggregation block, constraints and declarations with `for`) "
         "is compared on every run with what the compiler produces for hundreds of generated data-driven programs: objective tree, constraints (names, sides, relations, order) and declared variables (names, types, order) must coincide. "
         "Proved about the expander for data of any size: ranges yield exactly the whole numbers between their ends in order (empty exactly when they should be); nested iteration is the lexicographic product, first binder outermost; "
         "sum/prod/avg blocks denote the sum/product/mean of their operands at every real assignment and the compiler's right-nested tree has the value of the hand-written left-nested `a + b + c`; index flattening is injective (x_1_23 vs x_12_3). "
         "The comparison with the hand-unrolled text (written by the harness's own evaluator) is evaluated on the implementation at the level of linear models. Three genuine defects repaired (graph of isolated nodes unparseable, nested arrays with rows of different kinds not indexable, bound inference blind to coefficients written as constant expressions).",
    design_ref="DESIGN.md section 4 / C06",
    technique="Gallina reference expander with theorems on ranges, iteration order, folds and name flattening + per-program structural correspondence + hand-unrolled-text oracle on the implementation",
    note=TB + " zip, set functions and string data are not generated."),
 "C07": dict(
    category="proof",
    text="Proved in Coq for all models and all real assignments: bounds_of is sound inside the box; every propagation step (affine rows with prefix/suffix sums, "
         "abs/min/max/+,-,*,/ reverse rules) keeps every feasible point, hence analyze is sound for any step limit, on infeasible models and when it freezes; "
         "published ranges (integer rounding, NonNegativeReal clamp, keep-declared branches) contain every feasible value (C07_published_sound over compile); conversely the analysis only ever shrinks the boxes it starts from, so every published range lies inside the declared one (C07_published_inside_declared). "
         "Tie: the analyser through a guarded hook (box, flags, bounds_of on probes, several step limits) and the compiled domains vs the model on every run.",
    design_ref="DESIGN.md section 4 / C07",
    technique="Coq proof by induction over expressions and work-list fuel + per-run correspondence through a read-only hook + feasible-point-in-range oracle",
    note=TB + " The exact-rational model cannot exhibit a 1-ulp over-tightening caused by f64 rounding of 1.0/divisor."),
 "C08": dict(
    category="proof",
    text="Proved in Coq for all models: sorted duplicate-free variable list equal to the domain key set, one coefficient per variable in every row and the objective, "
         "every used declared variable present, auxiliary names disjoint from declared names. Checked as invariants on every implementation output each run "
         "(not yet proved): finite coefficients/rhs/offset, well-formed published ranges, missing-bounds error. Proved for every model: row names pairwise distinct, unnamed rows aside (C08_row_names_unique: the de-duplication loop always finds a free name within its step bound). " + CORE_TIE,
    design_ref="DESIGN.md section 4 / C08",
    technique="Coq proof of structural invariants of the compile model (frame lemmas over the linearizer monad) + per-run correspondence + output predicates on the implementation",
    note=TB),
 "C13": dict(
    category="proof",
    text="Proved in Coq end to end over the whole of to_standard_form (bound rows, free-variable column surgery, slack/surplus naming, rhs sign normalisation, resizing, max flip): "
         "every non-negative solution of the standard form, read back by name with a free variable v as $p v - $m v, satisfies every row of the linear model and every variable's domain, "
         "and the standard form's objective row evaluates to the model's objective there, negated for max (C13_backward, C13_objective_row, with a non-vacuity example). "
         "Conversely every point that satisfies the model's rows and domains is the read-back of a non-negative standard-form solution (C13_forward; premise: pairwise distinct column names, "
         "evaluated together with the input well-formedness premise lin_okb on every tied implementation output). Tie: to_standard_form is modelled completely and compared for exact equality "
         "(variables, objective, flip, offset, every row) with LinearModel::into_standard_form through a guarded accessor on every run; forward transfer and objective preservation "
         "are evaluated on the implementation over a grid of original points.",
    design_ref="DESIGN.md section 4 / C13",
    technique="Coq proof (backward and forward transfer end to end over the whole conversion) + exact structural correspondence of the whole standard form + grid transfer oracle on the implementation",
    note=TB + " Genuine defect F9 (tolerant sign test left a tiny negative rhs) was repaired in /repo (fix: commit)."),
 "C14": dict(
    category="proof",
    text="Proved in Coq for all finite rectangular tableaux, all pivots on a non-zero element and all real vectors: the equation system keeps exactly the same solutions, "
         "the objective row stays consistent, both lifted to every prefix of every pivot sequence; the ratio test keeps the basic solution non-negative; the objective never gets worse; "
         "at stop no non-negative solution beats the basic one; every column the direct start of into_tableau makes basic is a unit column with a positive entry (C14_direct_start_takes_unit_columns: the exact zero test of the F56 repair; with the tolerant test the statement is refuted by a witness). The solver's absolute 1e-5 tolerance inside the pivoting rules is kept visible as three refuted statements with witnesses evaluated in Coq (C14_tolerant_ratio_test_refuted, C14_tolerant_optimality_test_refuted, C14_two_phase_accepts_near_infeasible_refuted: findings F59, F59b, F57). Not proved: termination/anti-cycling, canonicity of basis columns, unbounded genuineness (checked on every implementation tableau). "
         "Tie: every observed pivot (entering, leaving, post-state) is replayed in the model from the implementation's own pre-state; start tableaux compared exactly.",
    design_ref="DESIGN.md section 4 / C14",
    technique="Coq proof of step invariants + induction over pivot sequences + per-step correspondence of histories + invariant/optimality/ray oracles on the implementation",
    note=TB),
 "C15": dict(
    category="translation_validation",
    text="rooc's own labelling logic (raw microlp status/error, requested gap, reported value, proven bound -> returned label or error) is modelled in Coq with the theorems wrap_never_mislabels "
         "(optimal only if proven and, under a positive gap, the reported value - constant term included - is within that gap of the proven bound; feasible for an incumbent; an error when interrupted before any "
         "feasible point or when options are invalid) and optimal_label_within_gap_of_optimum (hence within the gap of the TRUE optimum whenever bound and value bracket it, which is checked against the certified optimum "
         "on every run). Tied to the code by comparing every observed (raw status and bound via guarded hooks, gap, value, returned label) tuple over models x 45 (time limit, MIP gap) settings incl. 0, 1us, "
         "negative/NaN/infinite gaps. Every returned point goes through the Coq-verified feasibility checker; an Optimal label is compared with the optimum certified by exhaustive enumeration inside Coq. "
         "Genuine defects F10 (status ignored) and F47 (gap measured without the objective's constant term) were repaired.",
    design_ref="DESIGN.md section 4 / C15",
    technique="Coq decision-table model + theorem, tied by (raw status, label) correspondence through a hook; per-output validation with verified checkers",
    note="Trusted: Coq kernel; hook milp_verif_hooks; printers and Python comparison. Which raw status a given wall-clock limit produces is runtime behaviour the model cannot exhibit (only 0 and generous limits are deterministic)."),
 "C20": dict(
    category="translation_validation",
    text="sensitivity_cert_sound (Coq, axiom-free): if one dual vector certifies the optimum for right-hand side b and for b +- delta in row i, the optimal value moves by exactly y_i*delta, "
         "so y_i is the shadow price in the user's objective sense. z3 (untrusted) produces the two-sided certificates; for every named row that has one, the shadow price reported by "
         "solve_real_lp_problem_clarabel is compared with the certified slope (min and max, <=, >=, =); inactive rows must report 0, unnamed rows none, named rows all.",
    design_ref="DESIGN.md section 4 / C20",
    technique="Coq-verified sensitivity certificate + untrusted exact solver + per-model comparison of reported duals",
    note="Trusted: Coq kernel + vm_compute; Cert/Bridge.v translation; printers; Python comparison (1e-5). Only Clarabel reports duals among built-in solvers."),
 "C09": dict(
    category="proof",
    text="Proved in Coq (axiom-free) for token lists of any length and any operator table whose prefix operators bind tightest: pest's Pratt loop returns exactly the unique tree satisfying the declarative "
         "precedence-climbing predicate (soundness, completeness, uniqueness). Instantiated with the table REGENERATED from exp_parser.rs on every run; the property's sentences are corollaries checked against that table "
         "(level order; a -> b <-> c = a -> (b <-> c); a <-> b -> c = (a <-> b) -> c; equal levels group left). Tie: thousands of texts with every alias spelling, prefixes and keyword-prefixed identifiers are parsed and transformed by the "
         "implementation and compared structurally with the model's tree; implicit multiplication, aliases and keyword-prefixed identifiers are also evaluated directly. Genuine defect (trueish/falsey lexed as boolean literals) repaired.",
    design_ref="DESIGN.md section 4 / C09",
    technique="Coq proof over a fuelled model of pest's Pratt loop + operator table regenerated from source by a translator + structural correspondence on parsed texts",
    note="Trusted: Coq kernel + vm_compute; tools/srcparams.py; harness text printer. pest's PEG front end (tokenisation, whitespace) is not modelled."),
 "C11": dict(
    category="proof",
    text="PARTIAL proof. Proved in Coq (axiom-free) for expression trees of any size: the text PreExp's printer emits (parenthesisation rule needs_parens over the operator table REGENERATED from exp_parser.rs) "
         "is read back by the precedence-climbing parser with parenthesised primaries as exactly the original tree (parse(format e) = e), hence formatting is idempotent on expressions and never drops a parenthesis that changes grouping; "
         "the parser with parentheses provably extends the C09 parser. Tie on every run: for all 81 (parent, child) operator pairs in both nestings, all prefix placements and seeded random trees, the tokens of RoocParser::format's output "
         "must equal the model printer's and re-parse in the model to the tree. Whole-program clauses (blocks, iterations, declarations, names, constants; parses / idempotent / same compiled model) are evaluated on the implementation on "
         "thousands of generated snippets and on every program literal in /repo. Genuine defects repaired: dropped parentheses (F5), `solve` objective, escaped leading-underscore names.",
    design_ref="DESIGN.md section 4 / C11",
    technique="Coq proof of parse-after-print over a model of printer and parser + operator table regenerated from source + token correspondence + whole-program oracle on the implementation",
    note="Trusted: Coq kernel + vm_compute; tools/srcparams.py; harness tokeniser. Rendering of non-expression constructs is not modelled."),
 "C12": dict(
    category="proof",
    text="PARTIAL proof. Proved in Coq (axiom-free), for inputs of any size: (1) the text Exp's Display emits for an arithmetic expression of a compiled model is read back by the parser as exactly that expression "
         "(parenthesisation over the printers' table, REGENERATED from math/operators.rs, which is proved to order all 81 operator pairs like the parser's table regenerated from exp_parser.rs); "
         "(2) the left-hand side LinearModel's Display emits for a row (signs, magnitudes glued to names) is read back as a tree whose value is the row's linear form at every assignment. "
         "Tie on every run: tokens of the real renderings (all operator pairs/triples, random trees, every rendered row) must equal the model printers' and re-parse in the model to the same tree. "
         "The rest of the property is evaluated on the implementation: programs written by the generator's own printer go through parse + type-check + transform; the Model text and the LinearModel text must parse, type-check and "
         "compile to the same linear model (rows, coefficients, rhs, objective, offset, domains, up to row order), and the linear text must be a fixed point. Eleven genuine defects repaired (parentheses, `solve`, `--4`, boolean literals, "
         "empty `s.t.`, sign of tiny coefficients, mixed-type compound families, negative literals, huge integers); four harmless renormalisation classes are recorded as known findings F24, F30, F31, F32.",
    design_ref="DESIGN.md section 4 / C12",
    technique="Coq proof of parse-after-print for expressions and linear rows + two operator tables regenerated from source + token correspondence + re-compilation oracle on the implementation",
    note="Trusted: Coq kernel + vm_compute; tools/srcparams.py; harness tokenisers and source printer. Number/name/domain rendering and the type checker are not modelled."),
 "C16": dict(
    category="proof",
    text="PARTIAL proof. Proved in Coq for every expression the builder can construct and every real assignment: the builder's translation to the name-based tree (to_exp) commutes with evaluation - the builder's own evaluator "
         "(eval_expr, used by BuilderSolution::eval) returns exactly the value the language's semantics gives the translated tree, defined exactly when it is; a handle resolves to the value of the variable of that name. "
         "Proved for every sequence of public ModelBuilder calls (add_var, with, with_all, minimize, maximize, satisfy in any order; Model/BuilderOps.v): the model into_model returns is determined by the declared variables in order, "
         "the constraints in order however grouped and the LAST objective call (C16_call_order_irrelevant), it exists exactly when no name is declared twice, handles keep naming their variable, every declared variable is marked used; "
         "tied on every run by running random call sequences (incl. duplicate declarations, several objective calls, empty with_all) on the real ModelBuilder and comparing into_model's result structurally. "
         "Tie on every run: every expression of every generated model is built through the public API (operators, helper functions, methods, macros' target constructors), the tree ModelBuilder::into_model produced and the values "
         "BuilderSolution::eval returns at fixed assignments (through a Solver that returns a given point) must equal the model's. The agreement of the front doors is evaluated on the implementation: builder.linearize() vs text front end "
         "vs staged pipes row for row (declared-but-unused builder variables kept), four orders of builder calls, and - under a watchdog - the same verdict and optimum from builder/Auto, RoocSolver::solve_using and PipeRunner, "
         "handle = name values inside the declared domains, eval(objective) = reported value, eval of every constraint satisfied at the solution.",
    design_ref="DESIGN.md section 4 / C16",
    technique="Coq proof that translation commutes with evaluation over a hand-written model of the builder + structural/value correspondence + cross-entry-point oracle on the implementation",
    note=TB + " PipeRunner/RoocSolver/solve_with are compared, not modelled."),
 "C18": dict(
    category="proof",
    text="Exp::linearize is structurally recursive: with fuel above the depth of the expression its Gallina model never reports exhaustion, for every expression (logic arms included) and every state (C18_linearize_recursion_is_structural, Proof/LinFuel.v). PARTIAL (runtime property). Proved in Coq (axiom-free) on the models tied to the code by the other checks: bound propagation stops after at most max_steps constraint visits and the tableau simplex after at most `limit` pivots - "
         "the fuel of the models is never what stops them; integer arithmetic on constants is checked: every integer result of every operator lies inside i64 / u64 for all operands, and the former panic/wrap cases (negating the smallest integer, "
         "negating a huge positive integer) are Overflow errors. The property itself is evaluated on the implementation under catch_unwind and a process-level watchdog: repository programs, fixed adversarial inputs, thousands of mutated programs, "
         "grammar-derived programs and raw noise go through parse, error rendering, format (+ re-parse), type_check, transform, Display, linearize, LP export, standardise and solve; parsing time is measured at nesting depths 8..128 for every recursive construct. "
         "All-real models with finite lower bounds are also solved by the tableau simplex and by Clarabel. Genuine defects repaired: exponential parsing time in the nesting depth of parentheses (64 levels never finished), a huge range aborting the process, a panic on negating the smallest integer, a panic of the good_lp bridge on a model without variables, simplification time doubling with every min / max nesting level. Open (known finding F55): flatten expands a product of k constant sums into 2^k terms.",
    design_ref="DESIGN.md section 4 / C18",
    technique="Coq theorems on loop step counters and checked arithmetic + watchdogged robustness run of every public stage on adversarial inputs",
    note="Trusted: Coq kernel; harness watchdog. Panics, stack depth, memory and time are runtime behaviour outside any model; solve is exercised on bounded models only (microlp hang F18 is recorded under C05)."),
 "C19": dict(
    category="proof",
    text="PARTIAL proof. Proved in Coq (axiom-free) for constant expressions of any size over literals, named constants and every binary/unary operator - what the compiler evaluates at transform time (indexes, bounds, arguments, `let` constants): "
         "if the checker accepts (static tables PrimitiveKind::can_apply_*_op over the static kinds of PreExp::get_type), evaluation (Primitive::apply_*_op with checked integer arithmetic and division) never fails with a type-class error "
         "or an undeclared name; it yields a value whose kind fits the static kind, or a data-dependent error (division by zero, overflow). The operator-table lemmas hold for ALL values of the accepted kinds. "
         "Tie on every run: all 12x9x12 static triples, 25x9x25 dynamic value pairs incl. i64/u64 extremes, the static result kinds read from the checker's token map, and seeded constant expressions checked and transformed end to end. "
         "The rest of the language is covered on the implementation: seeded programs with perturbed types in every position and all repository programs - accepted by type_check implies transform never fails with a type-class error. "
         "Two genuine defects repaired (division by zero / overflow and non-whole values reported as type errors); one recorded as known finding F40 (decision variable in a value position).",
    design_ref="DESIGN.md section 4 / C19",
    technique="Coq proof of type soundness for the primitive-operator layer (finite table sweeps lifted to all values and all expressions) + exhaustive table correspondence + perturbed-program oracle on the implementation",
    note="Trusted: Coq kernel + vm_compute; harness classification of errors and token-map reader. Functions, iterations, destructuring and declarations are tested, not modelled."),
 "C17": dict(
    category="proof",
    text="to_lp_format is modelled at token level (lp_terms, lp_num, lp_bound, sections, generated row names) and an independently written reader of the CPLEX-LP subset lives in Coq. "
         "Proved (axiom-free) for every linear model with admissible names and non-NaN bounds (boolean premise lp_okb, evaluated on every tied model): the reader applied to the writer's whole file succeeds and returns the model's "
         "denotation - sense, objective terms and constant, every row with its name, relation and right-hand side (signs, omitted unit coefficients and zero terms, all-zero rows), Bounds incl. free and infinite, Binary, General (C17_roundtrip). Tie on every run: the real LP text is tokenised and must equal the model writer's tokens, and the reader run on the REAL text must return the model's denotation "
         "(sense, objective terms and constant, rows with names/relation/rhs, bounds incl. free and infinite, Binary, General); generated row names must be unique. Genuine defect F11 repaired.",
    design_ref="DESIGN.md section 4 / C17",
    technique="Coq model of writer + independent reader with a whole-file round-trip theorem; per-run token correspondence and reader-on-real-text check",
    note="Trusted: Coq kernel + vm_compute; Python tokeniser (whitespace split, trailing colon split, decimal text -> f64 -> exact rational)."),
 "C10": dict(
    category="proof",
    text="Coq theorems for all expressions and all real assignments: Exp::simplify (typed semantics) and Exp::flatten preserve the value; "
         "the unconditional simplify statement and the division-by-zero clause are kept visible as *_refuted theorems with vm_compute witnesses "
         "(known findings F17, F3, F3b). The model is tied to the code on every run by a structural correspondence check on ~10^4 (quick) / ~2*10^5 "
         "(thorough) trees incl. all small trees, and the property itself is evaluated on the implementation on a grid of assignments. "
         "Respelling clause: seeded pairs of programs that differ only in how constants are written (literal, sum, difference, named, negated, product; either side of `*`; implicit product; divisor; right-hand side; zero divisors for the rejection clause) "
         "go through the whole compiler and the two linear models are compared point by point on a grid (projection feasibility, best objective) and on acceptance.",
    design_ref="DESIGN.md section 4 / C10",
    technique="Coq proof by induction on fuel over a hand-written model + per-run correspondence check (vm_compute) + failing-input search on the implementation",
    note=TB + " Idempotence and the respelling clause are checked on the implementation (test), not yet proved."),
}

def main():
    man = {
     "version": 1,
     "setup_cmd": "./check setup",
     "hooks": {"guard": "rooc_verif",
               "enable": "RUSTFLAGS='--cfg rooc_verif' cargo build --offline in /verif/harness (path dependency on /repo/packages/rooc)",
               "baseline_off_cmd": "cd /repo/packages/rooc && cargo test --workspace --no-fail-fast --offline",
               "source_commits": [l.split()[0] for l in subprocess.run(["git", "-C", "/repo", "log", "--format=%H %s"], capture_output=True, text=True).stdout.splitlines() if " hook:" in l or "verif hook" in l],
               "add_only": True},
     "engines": [{"name": "coq-model+tie", "path": "/verif/check", "serves_properties": sorted(CHECKS), "kind_free_text": "Coq 8.16 development (coq/), Rust correspondence harness (harness/), Python driver (checks/)"}],
     "checks": [],
     "notes": "Machine-checked proof in Coq 8.16 of hand-written models, tied to /repo by a correspondence check on every run; see DESIGN.md.",
     "not_applicable": [],
    }
    for p in props:
        if p in CHECKS:
            c = CHECKS[p]
            man["checks"].append({
                "property_id": p,
                "quick_cmd": "./check %s --tier quick" % p,
                "thorough_cmd": "./check %s --tier thorough" % p,
                "evidence_file": "/verif/evidence/%s.json" % p,
                "replay_cmd_template": "./check %s --replay {path}" % p,
                "engine": "coq-model+tie",
                "level_claimed": {"category": c["category"], "text": c["text"], "design_ref": c["design_ref"]},
                "level_note": c["note"],
                "technique": c["technique"],
            })
        else:
            man["not_applicable"].append({"property_id": p, "reason": "check not built yet - the technique applies (DESIGN.md section 4), so this is not a claim of inapplicability"})
    json.dump(man, open(os.path.join(V, "MANIFEST.json"), "w"), indent=1)

if __name__ == "__main__":
    main()
