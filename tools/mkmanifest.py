#!/usr/bin/env python3
"""Regenerates MANIFEST.json from the table below (kept in one place so the manifest is always valid)."""
import json, os, subprocess
V = os.path.dirname(os.path.dirname(os.path.abspath(__file__)))
props = [json.loads(l)["id"] for l in open(os.path.join(V, "properties.jsonl"))]

TB = ("Trusted: Coq 8.16.1 kernel + vm_compute; std-lib axioms named in the evidence file (Coq.Reals: sig_forall_dec, "
      "functional_extensionality_dep) where the theorem quantifies over real assignments; hand-written Gallina model tied to /repo by the "
      "correspondence check (Rust harness + exact f64->Q printer + Python driver); f64 rounding not modelled.")

CHECKS = {
 "C10": dict(
    category="proof",
    text="Coq theorems for all expressions and all real assignments: Exp::simplify (typed semantics) and Exp::flatten preserve the value; "
         "the unconditional simplify statement and the division-by-zero clause are kept visible as *_refuted theorems with vm_compute witnesses "
         "(known findings F17, F3, F3b). The model is tied to the code on every run by a structural correspondence check on ~10^4 (quick) / ~2*10^5 "
         "(thorough) trees incl. all small trees, and the property itself is evaluated on the implementation on a grid of assignments.",
    design_ref="DESIGN.md section 4 / C10",
    technique="Coq proof by induction on fuel over a hand-written model + per-run correspondence check (vm_compute) + failing-input search on the implementation",
    note=TB + " Idempotence and the respelling clause are checked on the implementation (test), not yet proved."),
}

def main():
    man = {
     "version": 1,
     "setup_cmd": "./check setup",
     "hooks": {"guard": "rooc_verif",
               "enable": "RUSTFLAGS='--cfg rooc_verif' cargo build --offline in /verif/harness (path dependency on /repo/packages/rooc)",
               "baseline_off_cmd": "cd /repo/packages/rooc && cargo test --workspace --no-fail-fast --offline",
               "source_commits": [l.split()[0] for l in subprocess.run(["git", "-C", "/repo", "log", "--format=%H %s"], capture_output=True, text=True).stdout.splitlines() if " hook:" in l or "verif hook" in l],
               "add_only": True},
     "engines": [{"name": "coq-model+tie", "path": "/verif/check", "serves_properties": sorted(CHECKS), "kind_free_text": "Coq 8.16 development (coq/), Rust correspondence harness (harness/), Python driver (checks/)"}],
     "checks": [],
     "notes": "Machine-checked proof in Coq 8.16 of hand-written models, tied to /repo by a correspondence check on every run; see DESIGN.md.",
     "not_applicable": [],
    }
    for p in props:
        if p in CHECKS:
            c = CHECKS[p]
            man["checks"].append({
                "property_id": p,
                "quick_cmd": "./check %s --tier quick" % p,
                "thorough_cmd": "./check %s --tier thorough" % p,
                "evidence_file": "/verif/evidence/%s.json" % p,
                "replay_cmd_template": "./check %s --replay {path}" % p,
                "engine": "coq-model+tie",
                "level_claimed": {"category": c["category"], "text": c["text"], "design_ref": c["design_ref"]},
                "level_note": c["note"],
                "technique": c["technique"],
            })
        else:
            man["not_applicable"].append({"property_id": p, "reason": "check not built yet - the technique applies (DESIGN.md section 4), so this is not a claim of inapplicability"})
    json.dump(man, open(os.path.join(V, "MANIFEST.json"), "w"), indent=1)

if __name__ == "__main__":
    main()
