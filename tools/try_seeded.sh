#!/bin/sh
# usage: try_seeded.sh <patch.diff> <check-id>...   applies the change to /repo, runs the quick checks, reverts
set -u
patch="$(readlink -f "$1")"; shift
git -C /repo status --short | grep -q . && { echo "/repo not clean"; exit 2; }
git -C /repo apply "$patch" || { echo "patch does not apply"; exit 2; }
for id in "$@"; do
  out=$(cd /verif && timeout 3000 ./check "$id" --tier quick 2>&1)
  echo "$out" | grep -E "^(VIOLATION|KNOWN-FINDING|$id:)" | cut -c1-300
done
git -C /repo checkout -- .
git -C /repo status --short
