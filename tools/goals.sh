#!/bin/bash
# usage: goals.sh <file.v> <line>  -- prints the goals right before the given line (e.g. a failing Qed)
f=$1; n=$2
tmp=/verif/.build/goals_tmp.v
head -n $((n-1)) $f > $tmp
echo "Show. Abort." >> $tmp
cd /verif/coq && timeout 120 coqc -noglob -Q . Rooc $tmp 2>&1 | tail -${3:-40}
rm -f /verif/.build/goals_tmp.vo /verif/.build/goals_tmp.glob /verif/.build/.goals_tmp.aux
