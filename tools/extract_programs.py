#!/usr/bin/env python3
"""Extracts the ROOC programs embedded as string literals in /repo's tests and examples (one JSON string per line).
Used as a realistic corpus (blocks, iterations, constants, graphs, compound names) by C06/C11/C12/C18/C19."""
import glob, json, re, sys

def literals(src):
    out = []
    # raw strings r#"..."# and r"..."
    for m in re.finditer(r'r#"(.*?)"#', src, flags=re.S):
        out.append(m.group(1))
    # ordinary strings, possibly multi-line, with escapes
    for m in re.finditer(r'(?<![r#])"((?:[^"\\]|\\.)*)"', src, flags=re.S):
        s = m.group(1)
        try:
            s = re.sub(r'\\\n\s*', '', s)
            s = s.encode("utf-8").decode("unicode_escape") if "\\" in s else s
        except Exception:
            continue
        out.append(s)
    return out

def main():
    seen, progs = set(), []
    files = sorted(glob.glob("/repo/packages/rooc/tests/*.rs") + glob.glob("/repo/packages/rooc/examples/*.rs") + glob.glob("/repo/packages/rooc/src/**/*.rs", recursive=True))
    for f in files:
        try:
            src = open(f, encoding="utf-8").read()
        except Exception:
            continue
        for s in literals(src):
            low = s.lower()
            if ("s.t." in low or "subject to" in low) and ("min" in low or "max" in low or "solve" in low) and len(s) < 4000:
                key = s.strip()
                if key not in seen:
                    seen.add(key); progs.append(s)
    out = open(sys.argv[1], "w") if len(sys.argv) > 1 else sys.stdout
    for p in progs:
        out.write(json.dumps(p) + "\n")

if __name__ == "__main__":
    main()
