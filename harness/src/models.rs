//! Source models: generator, Coq printers, exact-ish oracles (source feasibility; linear-side
//! "exists an auxiliary extension" by Boolean enumeration + Fourier-Motzkin on the continuous auxiliaries).
use crate::{coqfmt as cq, eval::*, gens::*, rng::Rng};
use indexmap::IndexMap;
use rooc::model_transformer::{Constraint, DomainVariable, Exp, Model, Objective};
use rooc::{BinOp, Comparison, InputSpan, LinearModel, OptimizationType, UnOp, VariableType};

pub fn vtype(t: &VariableType) -> String {
    match t {
        VariableType::Boolean => "TBoolean".into(),
        VariableType::IntegerRange(a, b) => format!("(TIntegerRange ({}) ({}))", a, b),
        VariableType::NonNegativeReal(a, b) => format!("(TNonNegativeReal {} {})", cq::xq(*a), cq::xq(*b)),
        VariableType::Real(a, b) => format!("(TReal {} {})", cq::xq(*a), cq::xq(*b)),
    }
}
pub fn dir(o: &OptimizationType) -> &'static str {
    match o { OptimizationType::Min => "DMin", OptimizationType::Max => "DMax", OptimizationType::Satisfy => "DSatisfy" }
}
pub fn constraint(c: &Constraint) -> String {
    format!("(mkConstr {} {} {} {} {})", cq::string(c.name()), cq::exp(c.lhs()), cq::cmp(&c.constraint_type()), cq::exp(c.rhs()), cq::boolean(c.is_logic_assertion()))
}
pub fn model(m: &Model) -> String {
    let cs: Vec<Constraint> = m.constraints().clone();
    let dom: Vec<(String, DomainVariable)> = m.domain().iter().map(|(k, v)| (k.clone(), v.clone())).collect();
    format!("(mkModel {} {} {} {})", dir(&m.objective().objective_type), cq::exp(&m.objective().rhs),
        cq::list(&cs, constraint),
        cq::list(&dom, |(k, v)| format!("({}, mkDV {} {})", cq::string(k), vtype(v.get_type()), cq::boolean(v.is_used()))))
}
pub fn linmodel(l: &LinearModel) -> String {
    let dom: Vec<(String, DomainVariable)> = l.domain().iter().map(|(k, v)| (k.clone(), v.clone())).collect();
    format!("(mkLM {} {} {} {} {} {})",
        cq::list(l.variables(), |s| cq::string(s)),
        cq::list(&dom, |(k, v)| format!("({}, {})", cq::string(k), vtype(v.get_type()))),
        cq::list(l.constraints(), |r| format!("(mkLRow {} {} {} {})", cq::string(&r.name()), cq::list(r.coefficients(), |c| cq::xq(*c)), cq::cmp(r.constraint_type()), cq::xq(r.rhs()))),
        cq::list(l.objective(), |c| cq::xq(*c)), cq::xq(l.objective_offset()), dir(l.optimization_type()))
}
pub fn lerr(e: &rooc::LinearizationError) -> String {
    use rooc::LinearizationError::*;
    match e {
        NonLinearExpression(_) => "ENonLinear".into(),
        DivisionByZero(_) => "EDivZero".into(),
        EmptyAggregation(_) => "EEmptyAgg".into(),
        VarAlreadyDeclared(s) => format!("(EVarDeclared {})", cq::string(s)),
        UnimplementedExpression(_) => "EUnimplemented".into(),
        NonBinaryLogicOperand(_) => "ENonBinary".into(),
        MissingFiniteBounds { variables, .. } => format!("(EMissingBounds {})", cq::list(variables, |s| cq::string(s))),
    }
}
pub fn lerr_kind(e: &rooc::LinearizationError) -> &'static str {
    use rooc::LinearizationError::*;
    match e {
        NonLinearExpression(_) => "NonLinear", DivisionByZero(_) => "DivZero", EmptyAggregation(_) => "EmptyAgg",
        VarAlreadyDeclared(_) => "VarDeclared", UnimplementedExpression(_) => "Unimplemented",
        NonBinaryLogicOperand(_) => "NonBinary", MissingFiniteBounds { .. } => "MissingBounds",
    }
}

// ------------------------------------------------------------------ generator
pub fn var(s: &str) -> Exp { Exp::Variable(s.to_string()) }
pub fn num(x: f64) -> Exp { Exp::Number(x) }
pub fn bin(op: BinOp, a: Exp, c: Exp) -> Exp { Exp::BinOp(op, b(a), b(c)) }

pub struct ModelGen { pub logic: bool, pub arith: bool }

#[derive(Clone)]
pub struct VarDecl { pub name: String, pub ty: VariableType, pub used: bool }

const COEFS: &[f64] = &[1.0, 1.0, 2.0, -1.0, 0.5, -2.0, 3.0, 0.25, -0.5, 4.0];
const KS: &[f64] = &[0.0, 1.0, 2.0, -1.0, 3.0, 0.5, 4.0, -2.0, 1.5, 6.0, -3.0];

impl ModelGen {
    pub fn decls(&self, r: &mut Rng) -> Vec<VarDecl> {
        let n = 1 + r.below(4);
        let names = ["x", "y", "z", "w"];
        let mut out = Vec::new();
        for i in 0..n {
            let ty = match r.below(if self.logic { 8 } else { 6 }) {
                0 => { let lo = r.range(-3, 1) as i32; VariableType::IntegerRange(lo, lo + r.range(0, 5) as i32) }
                1 => { let lo = r.range(-3, 1) as f64 * 0.5; VariableType::Real(lo, lo + r.range(0, 8) as f64 * 0.5) }
                2 => VariableType::Real(f64::NEG_INFINITY, f64::INFINITY),
                3 => match r.below(3) { 0 => VariableType::Real(f64::NEG_INFINITY, r.range(-2, 4) as f64), 1 => VariableType::Real(r.range(-4, 2) as f64, f64::INFINITY), _ => if r.chance(1, 2) { VariableType::NonNegativeReal(0.0, f64::INFINITY) } else { VariableType::NonNegativeReal(r.range(1, 4) as f64 * 0.5, f64::INFINITY) } },
                4 => VariableType::NonNegativeReal(0.0, r.range(0, 6) as f64),
                5 => VariableType::NonNegativeReal(r.range(0, 2) as f64 * 0.5, 3.0 + r.range(0, 3) as f64),
                _ => VariableType::Boolean,
            };
            out.push(VarDecl { name: names[i].to_string(), ty, used: true });
        }
        if self.logic { for nm in ["p", "q"].iter().take(1 + r.below(2)) { out.push(VarDecl { name: nm.to_string(), ty: VariableType::Boolean, used: true }); } }
        if r.chance(1, 6) { out.push(VarDecl { name: "unused".into(), ty: VariableType::Real(0.0, 1.0), used: false }); }
        // now and then a user variable carries a name of the kind the compiler invents for its auxiliaries
        if r.chance(1, 10) { let k = r.below(out.len()); out[k].name = r.pick(&["$logic_witness_0", "$logic_witness_1", "$or_0", "$and_0", "$abs_0", "$min_0", "$max_0", "$xor_0", "$iff_0", "$implies_0", "$abs_0_positive", "$min_0_select_0", "$max_0_select_1"]).to_string(); }
        out
    }
    fn numeric_vars<'a>(&self, d: &'a [VarDecl]) -> Vec<&'a VarDecl> { d.iter().filter(|v| v.used && !matches!(v.ty, VariableType::Boolean)).collect() }
    fn bool_vars<'a>(&self, d: &'a [VarDecl]) -> Vec<&'a VarDecl> { d.iter().filter(|v| v.used && matches!(v.ty, VariableType::Boolean)).collect() }

    pub fn affine(&self, r: &mut Rng, d: &[VarDecl]) -> Exp {
        let nv = self.numeric_vars(d);
        let pool: Vec<&VarDecl> = if nv.is_empty() { d.iter().filter(|v| v.used).collect() } else { nv };
        let nterms = 1 + r.below(2);
        let mut e: Option<Exp> = None;
        for _ in 0..nterms {
            let v = var(&pool[r.below(pool.len())].name);
            let c = *r.pick(COEFS);
            let t = match r.below(6) {
                0 => v,
                1 => bin(BinOp::Mul, num(c), v),
                2 => bin(BinOp::Mul, v, num(c)),
                3 => bin(BinOp::Div, v, num(*r.pick(&[2.0, -2.0, 4.0, 0.5, 1.0]))),
                4 => Exp::UnOp(UnOp::Neg, b(v)),
                // a coefficient written as an expression of constants (what expanded data compiles to)
                _ => match r.below(4) { 0 => bin(BinOp::Mul, bin(BinOp::Mul, num(c), num(2.0)), v), 1 => bin(BinOp::Div, v, bin(BinOp::Add, num(1.0), num(1.0))), 2 => bin(BinOp::Mul, v, bin(BinOp::Sub, num(c), num(0.5))), _ => bin(BinOp::Mul, num(c), v) },
            };
            e = Some(match e { None => t, Some(p) => bin(if r.chance(1, 2) { BinOp::Add } else { BinOp::Sub }, p, t) });
        }
        let e = e.unwrap();
        if r.chance(1, 2) { bin(if r.chance(1, 2) { BinOp::Add } else { BinOp::Sub }, e, num(*r.pick(KS))) } else { e }
    }
    pub fn arith(&self, r: &mut Rng, d: &[VarDecl], depth: usize) -> Exp {
        if depth == 0 || r.chance(2, 5) { return self.affine(r, d); }
        match r.below(11) {
            // abs of something whose sign the analyser can know (a non-affine block shifted far from zero): the shortcut arms
            10 => { let k = |r: &mut Rng| num(*r.pick(KS)); let blk = if r.chance(1, 2) { Exp::Min(vec![k(r), k(r)]) } else { Exp::Max(vec![k(r), k(r), k(r)]) };
                    if r.chance(1, 2) { bin(BinOp::Add, bin(BinOp::Mul, blk, self.affine(r, d)), self.affine(r, d)) } else { bin(BinOp::Add, self.affine(r, d), blk) } }
            9 => { let inner = match r.below(3) { 0 => Exp::Max(vec![self.affine(r, d), self.affine(r, d)]), 1 => Exp::Min(vec![self.affine(r, d), self.affine(r, d)]), _ => Exp::Abs(b(self.affine(r, d))) };
                   let k = num(*r.pick(&[40.0, 25.0, 60.0]));
                   Exp::Abs(b(match r.below(3) { 0 => bin(BinOp::Sub, inner, k), 1 => bin(BinOp::Add, inner, k), _ => bin(BinOp::Sub, k, inner) })) }
            0 | 1 => Exp::Abs(b(self.arith(r, d, depth - 1))),
            2 => Exp::Max((0..2 + r.below(2)).map(|_| self.arith(r, d, depth - 1)).collect()),
            3 => Exp::Min((0..2 + r.below(2)).map(|_| self.arith(r, d, depth - 1)).collect()),
            4 => bin(BinOp::Add, self.arith(r, d, depth - 1), self.arith(r, d, depth - 1)),
            5 => bin(BinOp::Sub, self.arith(r, d, depth - 1), self.arith(r, d, depth - 1)),
            6 => { let c = num(*r.pick(COEFS)); let inner = self.arith(r, d, depth - 1); if r.chance(1, 2) { bin(BinOp::Mul, c, inner) } else { bin(BinOp::Mul, inner, c) } }   // constant on either side
            7 => Exp::UnOp(UnOp::Neg, b(self.arith(r, d, depth - 1))),
            _ => if self.logic && r.chance(1, 2) { bin(BinOp::Add, self.arith(r, d, depth - 1), self.logicv(r, d, 1)) } else { bin(BinOp::Div, self.arith(r, d, depth - 1), num(*r.pick(&[2.0, -2.0, 4.0]))) },
        }
    }
    pub fn logicv(&self, r: &mut Rng, d: &[VarDecl], depth: usize) -> Exp {
        let bv = self.bool_vars(d);
        if bv.is_empty() { return num(if r.chance(1, 2) { 1.0 } else { 0.0 }); }
        if depth == 0 || r.chance(1, 3) {
            return match r.below(8) { 0 => num(1.0), 1 => num(0.0), _ => var(&bv[r.below(bv.len())].name) };
        }
        let d1 = depth - 1;
        match r.below(10) {
            0 | 1 => Exp::And((0..1 + r.below(3)).map(|_| self.logicv(r, d, d1)).collect()),
            2 | 3 => Exp::Or((0..1 + r.below(3)).map(|_| self.logicv(r, d, d1)).collect()),
            4 => Exp::Not(b(self.logicv(r, d, d1))),
            5 => Exp::Xor(b(self.logicv(r, d, d1)), b(self.logicv(r, d, d1))),
            6 => Exp::Implies(b(self.logicv(r, d, d1)), b(self.logicv(r, d, d1))),
            7 => Exp::Iff(b(self.logicv(r, d, d1)), b(self.logicv(r, d, d1))),
            8 => Exp::BinOp(*r.pick(LOGIC), b(self.logicv(r, d, d1)), b(self.logicv(r, d, d1))),
            _ => Exp::UnOp(UnOp::Not, b(self.logicv(r, d, d1))),
        }
    }
    pub fn cmp(&self, r: &mut Rng) -> Comparison {
        match r.below(7) { 0 | 1 | 2 => Comparison::LessOrEqual, 3 | 4 => Comparison::GreaterOrEqual, _ => Comparison::Equal }
    }
    pub fn constraint(&self, r: &mut Rng, d: &[VarDecl], idx: usize) -> Constraint {
        let name = match r.below(6) { 0 => "c".to_string(), 1 => format!("c{idx}"), 2 => "c__2".to_string(), _ => String::new() };
        let kind = r.below(10);
        if self.logic && kind < 3 {
            return Constraint::new_logic_assertion(self.logicv(r, d, 3), name);
        }
        if self.logic && kind == 3 {
            let k = *r.pick(&[0.0, 1.0, 1.0, 0.5]);
            return if r.chance(1, 2) { Constraint::new(self.logicv(r, d, 2), self.cmp(r), num(k), name) } else { Constraint::new(num(k), self.cmp(r), self.logicv(r, d, 2), name) };
        }
        if kind <= 5 {
            // bound-deriving affine rows
            return Constraint::new(self.affine(r, d), self.cmp(r), num(*r.pick(KS)), name);
        }
        if !self.arith { return Constraint::new(self.affine(r, d), self.cmp(r), self.affine(r, d), name); }
        // a block that reaches the comparison only through a constant factor or divisor (negative ones flip what the row needs
        // from the block), on either side of the comparison
        if r.chance(1, 5) {
            let blk = match r.below(4) { 0 => Exp::Abs(b(self.affine(r, d))), 1 => Exp::Max(vec![self.affine(r, d), self.affine(r, d)]), 2 => Exp::Min(vec![self.affine(r, d), self.affine(r, d)]),
                                         _ => Exp::Max(vec![Exp::Min(vec![self.affine(r, d), self.affine(r, d)]), self.affine(r, d)]) };
            // tiny factors too: their sign still decides what the row needs from the block
            let c = num(*r.pick(&[-1.0, -2.0, 2.0, -0.5, 3.0, -4.0, -0.000005, 0.000004]));
            let scaled = match r.below(5) { 0 => bin(BinOp::Mul, blk, c), 1 => bin(BinOp::Mul, c, blk), 2 | 3 => bin(BinOp::Div, blk, c), _ => Exp::UnOp(UnOp::Neg, b(bin(BinOp::Div, blk, c))) };
            let k = num(*r.pick(KS));
            return if r.chance(2, 3) { Constraint::new(scaled, self.cmp(r), k, name) } else { Constraint::new(k, self.cmp(r), scaled, name) };
        }
        let l = self.arith(r, d, 2);
        let rr = if r.chance(2, 3) { num(*r.pick(KS)) } else { self.arith(r, d, 1) };
        Constraint::new(l, self.cmp(r), rr, name)
    }
    pub fn model(&self, r: &mut Rng) -> (Model, Vec<VarDecl>) {
        let d = self.decls(r);
        let nc = 1 + r.below(4);
        let cs: Vec<Constraint> = (0..nc).map(|i| self.constraint(r, &d, i)).collect();
        let ot = match r.below(5) { 0 | 1 => OptimizationType::Min, 2 | 3 => OptimizationType::Max, _ => OptimizationType::Satisfy };
        let obj = if matches!(ot, OptimizationType::Satisfy) && r.chance(1, 2) { num(0.0) }
            // an objective whose direction reaches a block only through a constant factor or divisor, written on either side
            else if self.arith && r.chance(1, 5) {
                let blk = match r.below(3) { 0 => Exp::Abs(b(self.affine(r, &d))), 1 => Exp::Max(vec![self.affine(r, &d), self.affine(r, &d)]), _ => Exp::Min(vec![self.affine(r, &d), self.affine(r, &d)]) };
                let c = num(*r.pick(&[-1.0, -2.0, 2.0, -0.5, 3.0, -0.000005, 0.000004, -0.0000025]));
                let scaled = match r.below(4) { 0 => bin(BinOp::Mul, blk, c), 1 => bin(BinOp::Mul, c, blk), 2 => bin(BinOp::Div, blk, c), _ => Exp::UnOp(UnOp::Neg, b(bin(BinOp::Mul, blk, c))) };
                bin(BinOp::Add, scaled, self.affine(r, &d)) }
            else if self.arith { self.arith(r, &d, 2) } else { self.affine(r, &d) };
        (build_model(ot, obj, cs, &d), d)
    }
}

pub fn build_model(ot: OptimizationType, obj: Exp, cs: Vec<Constraint>, d: &[VarDecl]) -> Model {
    let mut dom = IndexMap::new();
    for v in d {
        let mut dv = DomainVariable::new(v.ty, InputSpan::default());
        if v.used { dv.increment_usage(); }
        dom.insert(v.name.clone(), dv);
    }
    Model::new(Objective::new(ot, obj), cs, dom)
}

// ------------------------------------------------------------------ source-side semantics
pub fn in_type(t: &VariableType, v: f64) -> bool {
    let tol = 1e-9;
    match t {
        VariableType::Boolean => v == 0.0 || v == 1.0,
        VariableType::IntegerRange(a, b) => v.fract() == 0.0 && v >= *a as f64 - tol && v <= *b as f64 + tol,
        VariableType::NonNegativeReal(a, b) => v >= a.max(0.0) - tol && v <= *b + tol,
        VariableType::Real(a, b) => v >= *a - tol && v <= *b + tol,
    }
}
/// Some(true/false) or None when an expression is undefined at env
pub fn constraint_holds(c: &Constraint, env: &IndexMap<String, f64>) -> Option<bool> {
    let l = eval(c.lhs(), env)?;
    if c.is_logic_assertion() { return Some(l == 1.0); }
    let r = eval(c.rhs(), env)?;
    let tol = 1e-9;
    Some(match c.constraint_type() {
        Comparison::LessOrEqual => l <= r + tol, Comparison::GreaterOrEqual => l + tol >= r,
        Comparison::Equal => (l - r).abs() <= tol, Comparison::Less => l < r, Comparison::Greater => l > r,
    })
}
pub fn source_feasible(m: &Model, env: &IndexMap<String, f64>) -> Option<bool> {
    for (k, v) in m.domain() { if let Some(x) = env.get(k) { if !in_type(v.get_type(), *x) { return Some(false); } } }
    let mut all = true;
    for c in m.constraints() { if !constraint_holds(c, env)? { all = false; } }
    Some(all)
}

// ------------------------------------------------------------------ linear side: exists an extension?
#[derive(Clone, Debug)]
pub struct Row { pub a: Vec<f64>, pub cmp: i8, pub b: f64 } // cmp: -1 <=, 0 =, 1 >=

/// Fourier-Motzkin: feasibility of rows over n free real variables; also the range of `obj . x + c0`.
/// Returns Err(()) when the elimination grows too large to finish (the caller must then skip the case),
/// Ok(None) if infeasible, Ok(Some((min,max))) of the objective otherwise (may be infinite).
pub fn fm_range_checked(rows: &[Row], n: usize, obj: &[f64], c0: f64) -> Result<Option<(f64, f64)>, ()> {
    let mut ineqs: Vec<(Vec<f64>, f64)> = Vec::new(); // a.x <= b over n+1 vars (last = objective value t)
    for r in rows {
        let mut a = r.a.clone(); a.push(0.0);
        if r.cmp <= 0 { ineqs.push((a.clone(), r.b)); }
        if r.cmp >= 0 { ineqs.push((a.iter().map(|x| -x).collect(), -r.b)); }
    }
    let mut a: Vec<f64> = obj.iter().map(|x| -x).collect(); a.push(1.0);
    ineqs.push((a.clone(), c0));
    ineqs.push((a.iter().map(|x| -x).collect(), -c0));
    let eps = 1e-9;
    for v in 0..n {
        let mut pos = Vec::new(); let mut neg = Vec::new(); let mut zero = Vec::new();
        for (a, b) in ineqs.into_iter() {
            if a[v] > eps { pos.push((a, b)); } else if a[v] < -eps { neg.push((a, b)); } else { zero.push((a, b)); }
        }
        if pos.len() * neg.len() + zero.len() > 60000 { return Err(()); }
        for (pa, pb) in &pos { for (na, nb) in &neg {
            let (cp, cn) = (pa[v], -na[v]);
            let a: Vec<f64> = (0..=n).map(|j| if j == v { 0.0 } else { pa[j] / cp + na[j] / cn }).collect();
            zero.push((a, pb / cp + nb / cn));
        } }
        // drop exact duplicates and trivially true rows to keep the system small
        zero.retain(|(a, b)| !(a.iter().all(|c| c.abs() <= eps) && *b >= 0.0));
        zero.sort_by(|x, y| x.0.partial_cmp(&y.0).unwrap_or(std::cmp::Ordering::Equal).then(x.1.partial_cmp(&y.1).unwrap_or(std::cmp::Ordering::Equal)));
        zero.dedup_by(|x, y| x.0 == y.0 && x.1 >= y.1 - 1e-12 && { true });
        ineqs = zero;
    }
    let (mut lo, mut hi) = (f64::NEG_INFINITY, f64::INFINITY);
    for (a, b) in &ineqs {
        let c = a[n];
        if c > eps { hi = hi.min(b / c); } else if c < -eps { lo = lo.max(b / c); } else if *b < -1e-7 { return Ok(None); }
    }
    if lo > hi + 1e-7 { return Ok(None); }
    Ok(Some((lo, hi)))
}
pub fn fm_range(rows: &[Row], n: usize, obj: &[f64], c0: f64) -> Option<(f64, f64)> {
    fm_range_checked(rows, n, obj, c0).unwrap_or(Some((f64::NAN, f64::NAN)))
}

/// Solve A_S x_S = b for the column subset S by Gaussian elimination; Some(x) iff the solution exists and is unique.
pub fn solve_subset(rows: &[(Vec<f64>, f64)], cols: &[usize]) -> Option<Vec<f64>> {
    let m = rows.len(); let k = cols.len();
    let mut aug: Vec<Vec<f64>> = rows.iter().map(|(c, b)| { let mut r: Vec<f64> = cols.iter().map(|j| c[*j]).collect(); r.push(*b); r }).collect();
    let mut piv_row = 0; let mut piv_of_col = vec![usize::MAX; k];
    for col in 0..k {
        let mut best = piv_row; let mut bv = 0.0;
        for r in piv_row..m { if aug[r][col].abs() > bv { bv = aug[r][col].abs(); best = r; } }
        if bv < 1e-9 { return None; } // not full column rank: not a unique solution
        aug.swap(piv_row, best);
        let p = aug[piv_row][col];
        for j in 0..=k { aug[piv_row][j] /= p; }
        for r in 0..m { if r != piv_row { let f = aug[r][col]; if f != 0.0 { for j in 0..=k { aug[r][j] -= f * aug[piv_row][j]; } } } }
        piv_of_col[col] = piv_row; piv_row += 1;
        if piv_row > m { return None; }
    }
    for r in piv_row..m { if aug[r][k].abs() > 1e-7 { return None; } } // inconsistent
    Some((0..k).map(|c| aug[piv_of_col[c]][k]).collect())
}

/// Minimum of obj over all basic feasible solutions of {A x = b, x >= 0} (None if there is none).
pub fn best_vertex(rows: &[(Vec<f64>, f64)], nvars: usize, obj: &[f64], feas_tol: f64) -> Option<(f64, Vec<f64>)> {
    let mut best: Option<(f64, Vec<f64>)> = None;
    let m = rows.len();
    for mask in 0u32..(1u32 << nvars) {
        let cols: Vec<usize> = (0..nvars).filter(|j| (mask >> j) & 1 == 1).collect();
        if cols.len() > m { continue; }
        if let Some(xs) = solve_subset(rows, &cols) {
            if xs.iter().any(|v| *v < -feas_tol) { continue; }
            let mut x = vec![0.0; nvars];
            for (c, v) in cols.iter().zip(xs.iter()) { x[*c] = *v; }
            let o: f64 = obj.iter().zip(x.iter()).map(|(a, b)| a * b).sum();
            if best.as_ref().map_or(true, |(bo, _)| o < *bo) { best = Some((o, x)); }
        }
    }
    best
}

pub struct LinSide<'a> { pub l: &'a LinearModel, pub decl_idx: Vec<(usize, String)>, pub bool_aux: Vec<usize>, pub cont_aux: Vec<usize> }

impl<'a> LinSide<'a> {
    pub fn new(l: &'a LinearModel, declared: &[String]) -> Self {
        let mut decl_idx = Vec::new(); let mut bool_aux = Vec::new(); let mut cont_aux = Vec::new();
        for (i, v) in l.variables().iter().enumerate() {
            if declared.contains(v) { decl_idx.push((i, v.clone())); continue; }
            match l.domain().get(v).map(|d| *d.get_type()) {
                Some(VariableType::Boolean) | Some(VariableType::IntegerRange(_, _)) => bool_aux.push(i),
                _ => cont_aux.push(i),
            }
        }
        LinSide { l, decl_idx, bool_aux, cont_aux }
    }
    /// best objective over all extensions of env (None = no extension exists). dirsign: -1 min, +1 max, 0 any
    pub fn best_extension(&self, env: &IndexMap<String, f64>, dirsign: i8) -> Option<f64> {
        let l = self.l;
        let nv = l.variables().len();
        let mut x = vec![0.0; nv];
        for (i, name) in &self.decl_idx {
            let v = *env.get(name)?;
            if !in_type(l.domain().get(name).unwrap().get_type(), v) { return None; }
            x[*i] = v;
        }
        let k = self.bool_aux.len();
        if k > 14 { return None; }
        let nc = self.cont_aux.len();
        let mut best: Option<f64> = None;
        for mask in 0u32..(1u32 << k) {
            for (j, i) in self.bool_aux.iter().enumerate() { x[*i] = ((mask >> j) & 1) as f64; }
            // rows over continuous aux
            let mut rows = Vec::new();
            let mut ok = true;
            for r in l.constraints() {
                let mut fixed = 0.0;
                for (i, c) in r.coefficients().iter().enumerate() { if !self.cont_aux.contains(&i) { fixed += c * x[i]; } }
                let a: Vec<f64> = self.cont_aux.iter().map(|i| r.coefficients()[*i]).collect();
                let cmp = match r.constraint_type() { Comparison::LessOrEqual | Comparison::Less => -1, Comparison::Equal => 0, _ => 1 };
                if a.iter().all(|c| *c == 0.0) {
                    let d = fixed - r.rhs();
                    let holds = match cmp { -1 => d <= 1e-7, 0 => d.abs() <= 1e-7, _ => d >= -1e-7 };
                    if !holds { ok = false; break; }
                } else { rows.push(Row { a, cmp, b: r.rhs() - fixed }); }
            }
            if !ok { continue; }
            for (j, i) in self.cont_aux.iter().enumerate() {
                let t = l.domain().get(&l.variables()[*i]).unwrap().get_type();
                let (lo, hi) = match t { VariableType::NonNegativeReal(a, b) => (a.max(0.0), *b), VariableType::Real(a, b) => (*a, *b), _ => (0.0, 1.0) };
                let mut a = vec![0.0; nc]; a[j] = 1.0;
                if lo.is_finite() { rows.push(Row { a: a.clone(), cmp: 1, b: lo }); }
                if hi.is_finite() { rows.push(Row { a: a.clone(), cmp: -1, b: hi }); }
                if lo.is_nan() || hi.is_nan() || lo == f64::INFINITY || hi == f64::NEG_INFINITY { ok = false; }
            }
            if !ok { continue; }
            let mut c0 = l.objective_offset();
            for (i, c) in l.objective().iter().enumerate() { if !self.cont_aux.contains(&i) { c0 += c * x[i]; } }
            let obj: Vec<f64> = self.cont_aux.iter().map(|i| l.objective()[*i]).collect();
            let fm = match fm_range_checked(&rows, nc, &obj, c0) { Ok(x) => x, Err(()) => return Some(f64::NAN) };
            if let Some((lo, hi)) = fm {
                let v = match dirsign { -1 => lo, 1 => hi, _ => lo };
                best = Some(match best { None => v, Some(bv) => match dirsign { -1 => bv.min(v), 1 => bv.max(v), _ => bv } });
                if dirsign == 0 { return best; }
            }
        }
        best
    }
}

/// grid of candidate values for a declared variable
pub fn grid_for(t: &VariableType) -> Vec<f64> {
    match t {
        VariableType::Boolean => vec![0.0, 1.0, 0.5, 2.0],
        VariableType::IntegerRange(a, b) => {
            let mut v: Vec<f64> = ((*a - 1)..=(*b + 1)).map(|x| x as f64).collect();
            v.push(*a as f64 + 0.5);
            v
        }
        VariableType::NonNegativeReal(a, b) | VariableType::Real(a, b) => {
            let lo = if a.is_finite() { *a } else { -4.0 };
            let hi = if b.is_finite() { *b } else { lo.max(0.0) + 6.0 };
            let mut v = vec![lo, hi, lo - 0.5, hi + 0.5, 0.0, 0.5, -0.5, 1.0, -1.0, 1.5, 2.0, 2.5, 3.0, -2.0, -3.0, 0.25, (lo + hi) / 2.0];
            v.dedup();
            v
        }
    }
}

pub fn model_text(m: &Model) -> String { m.to_string() }

/// structural equality of compiled source models (objective, constraints in order with names, domains)
pub fn model_eq(a: &Model, b: &Model) -> Result<(), String> {
    if a.objective().objective_type != b.objective().objective_type { return Err("objective direction differs".into()); }
    if !exp_eq(&a.objective().rhs, &b.objective().rhs) { return Err(format!("objective differs: `{}` vs `{}`", a.objective().rhs, b.objective().rhs)); }
    if a.constraints().len() != b.constraints().len() { return Err(format!("{} vs {} constraints", a.constraints().len(), b.constraints().len())); }
    for (x, y) in a.constraints().iter().zip(b.constraints()) {
        if x.name() != y.name() || x.constraint_type() != y.constraint_type() || x.is_logic_assertion() != y.is_logic_assertion() || !exp_eq(x.lhs(), y.lhs()) || !exp_eq(x.rhs(), y.rhs()) {
            return Err(format!("constraint differs: `{}` vs `{}`", x, y));
        }
    }
    let da: Vec<(String, String)> = a.domain().iter().map(|(k, v)| (k.clone(), format!("{:?}/{}", v.get_type(), v.is_used()))).collect();
    let db: Vec<(String, String)> = b.domain().iter().map(|(k, v)| (k.clone(), format!("{:?}/{}", v.get_type(), v.is_used()))).collect();
    if da != db { return Err(format!("domains differ: {:?} vs {:?}", da, db)); }
    Ok(())
}
