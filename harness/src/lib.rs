//! Shared pieces of the correspondence harness: PRNG, exact number printing, Coq term printers,
//! expression generators and the reference evaluator used by the failing-input search.
pub mod rng;
pub mod coqfmt;
pub mod gens;
pub mod eval;
pub mod report;
pub mod models;
