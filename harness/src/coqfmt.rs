//! Printers from implementation values to Gallina terms of the model's types.
use rooc::{BinOp, UnOp, Comparison};
use rooc::model_transformer::Exp;

/// f64 -> exact xq term: `(F m e)` meaning m * 2^e, or PInf / NInf / NaN.
pub fn xq(v: f64) -> String {
    if v.is_nan() { return "NaN".into(); }
    if v == f64::INFINITY { return "PInf".into(); }
    if v == f64::NEG_INFINITY { return "NInf".into(); }
    if v == 0.0 { return "(F 0 0)".into(); }
    let bits = v.to_bits();
    let sign: i64 = if (bits >> 63) != 0 { -1 } else { 1 };
    let exp_bits = ((bits >> 52) & 0x7ff) as i64;
    let frac = (bits & 0x000f_ffff_ffff_ffff) as i64;
    let (mut m, mut e) = if exp_bits == 0 { (frac, -1074) } else { (frac | (1i64 << 52), exp_bits - 1075) };
    while m % 2 == 0 && m != 0 { m /= 2; e += 1; }
    format!("(F ({}) ({}))", sign * m, e)
}

pub fn string(s: &str) -> String {
    format!("\"{}\"", s.replace('"', "\"\""))
}

pub fn binop(op: &BinOp) -> &'static str {
    match op {
        BinOp::Add => "Add", BinOp::Sub => "Sub", BinOp::Mul => "Mul", BinOp::Div => "Div",
        BinOp::And => "BAnd", BinOp::Or => "BOr", BinOp::Xor => "BXor",
        BinOp::Implies => "BImplies", BinOp::Iff => "BIff",
    }
}
pub fn unop(op: &UnOp) -> &'static str { match op { UnOp::Neg => "Neg", UnOp::Not => "UNot" } }
pub fn cmp(c: &Comparison) -> &'static str {
    match c {
        Comparison::LessOrEqual => "Le", Comparison::GreaterOrEqual => "Ge", Comparison::Equal => "Eq",
        Comparison::Less => "Lt", Comparison::Greater => "Gt",
    }
}

pub fn list<T>(xs: &[T], f: impl Fn(&T) -> String) -> String {
    format!("[{}]", xs.iter().map(f).collect::<Vec<_>>().join("; "))
}

pub fn exp(e: &Exp) -> String {
    match e {
        Exp::Number(v) => format!("(Num {})", xq(*v)),
        Exp::Variable(s) => format!("(Var {})", string(s)),
        Exp::Abs(x) => format!("(Abs {})", exp(x)),
        Exp::Min(l) => format!("(Min {})", list(l, exp)),
        Exp::Max(l) => format!("(Max {})", list(l, exp)),
        Exp::And(l) => format!("(And {})", list(l, exp)),
        Exp::Or(l) => format!("(Or {})", list(l, exp)),
        Exp::Not(x) => format!("(Not {})", exp(x)),
        Exp::Xor(a, b) => format!("(Xor {} {})", exp(a), exp(b)),
        Exp::Implies(a, b) => format!("(Implies {} {})", exp(a), exp(b)),
        Exp::Iff(a, b) => format!("(Iff {} {})", exp(a), exp(b)),
        Exp::BinOp(op, a, b) => format!("(BinOp {} {} {})", binop(op), exp(a), exp(b)),
        Exp::UnOp(op, x) => format!("(UnOp {} {})", unop(op), exp(x)),
    }
}

pub fn boolean(b: bool) -> &'static str { if b { "true" } else { "false" } }
pub fn option<T>(o: &Option<T>, f: impl Fn(&T) -> String) -> String {
    match o { Some(x) => format!("(Some {})", f(x)), None => "None".into() }
}
