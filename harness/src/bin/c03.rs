//! C03 harness: whole programs as SOURCE TEXT over bounded integer/Boolean domains.
//!   gen <seed> <n> <out.jsonl>   : text (fully parenthesised, so its meaning does not depend on precedence) + the
//!                                  model the text denotes as a Gallina term
//!   worker <file> <i> <k>        : RoocSolver::try_new(text)?.solve_using(auto_solver), one `R i 0 json` line per text
use harness::{coqfmt as cq, gens::b, models::*, rng::Rng};
use rooc::model_transformer::{Constraint, Exp};
use rooc::{BinOp, Comparison, OptimizationType, UnOp, VariableType};
use serde_json::{json, Value};
use std::io::{BufRead, Write};

fn num_text(v: f64) -> String { if v < 0.0 { format!("(0 - {})", -v) } else { format!("{}", v) } }

/// `(a + b + c) / 3` is what `avg{ a, b, c }` denotes: a quotient of that shape is printed as the block (the reference keeps the tree)
fn avg_terms(e: &Exp, allow_two: bool) -> Option<Vec<&Exp>> {
    if let Exp::BinOp(BinOp::Div, s, d) = e {
        if let Exp::Number(n) = &**d {
            if *n == 3.0 { if let Exp::BinOp(BinOp::Add, ab, c) = &**s { if let Exp::BinOp(BinOp::Add, a, b2) = &**ab { return Some(vec![&**a, &**b2, &**c]); } } }
            if *n == 2.0 && allow_two { if let Exp::BinOp(BinOp::Add, a, b2) = &**s { return Some(vec![&**a, &**b2]); } }
        }
    }
    None
}

fn text(e: &Exp) -> String {
    if let Some(ts) = avg_terms(e, false) { return format!("avg{{ {} }}", ts.iter().map(|t| text(t)).collect::<Vec<_>>().join(", ")); }
    match e {
        Exp::Number(v) => num_text(*v),
        Exp::Variable(s) => s.clone(),
        Exp::Abs(x) => format!("abs{{ {} }}", text(x)),
        Exp::Min(l) => format!("min{{ {} }}", l.iter().map(text).collect::<Vec<_>>().join(", ")),
        Exp::Max(l) => format!("max{{ {} }}", l.iter().map(text).collect::<Vec<_>>().join(", ")),
        Exp::And(l) => format!("({})", l.iter().map(text).collect::<Vec<_>>().join(" and ")),
        Exp::Or(l) => format!("({})", l.iter().map(text).collect::<Vec<_>>().join(" or ")),
        Exp::Not(x) => format!("(not {})", text(x)),
        Exp::Xor(a, c) => format!("({} xor {})", text(a), text(c)),
        Exp::Implies(a, c) => format!("({} implies {})", text(a), text(c)),
        Exp::Iff(a, c) => format!("({} iff {})", text(a), text(c)),
        Exp::BinOp(op, a, c) => format!("({} {} {})", text(a), match op { BinOp::Add => "+", BinOp::Sub => "-", BinOp::Mul => "*", BinOp::Div => "/", BinOp::And => "and", BinOp::Or => "or", BinOp::Xor => "xor", BinOp::Implies => "implies", BinOp::Iff => "iff" }, text(c)),
        Exp::UnOp(UnOp::Neg, x) => format!("(-{})", text(x)),
        Exp::UnOp(UnOp::Not, x) => format!("(not {})", text(x)),
    }
}

/// the same tree spelled with only the parentheses the DOCUMENTED grammar needs: implies (right-assoc) and iff (left-assoc)
/// share the loosest level, then or, xor, and, then + -, then * /, unary minus and not bind tightest; equal levels group left
fn level(op: &BinOp) -> (u8, bool) { match op { BinOp::Implies => (1, false), BinOp::Iff => (1, true), BinOp::Or => (2, true), BinOp::Xor => (3, true), BinOp::And => (4, true), BinOp::Add | BinOp::Sub => (5, true), BinOp::Mul | BinOp::Div => (6, true) } }
fn text_min(e: &Exp, parent: Option<(&BinOp, bool)>) -> String {
    let wrap = |s: String, need: bool| if need { format!("({})", s) } else { s };
    if let Some(ts) = avg_terms(e, true) { return format!("avg{{ {} }}", ts.iter().map(|t| text_min(t, None)).collect::<Vec<_>>().join(", ")); }
    match e {
        Exp::BinOp(op, a, c) => {
            let (lv, left) = level(op);
            let sym = match op { BinOp::Add => "+", BinOp::Sub => "-", BinOp::Mul => "*", BinOp::Div => "/", BinOp::And => "and", BinOp::Or => "or", BinOp::Xor => "xor", BinOp::Implies => "implies", BinOp::Iff => "iff" };
            let body = format!("{} {} {}", text_min(a, Some((op, true))), sym, text_min(c, Some((op, false))));
            // parentheses unless the child binds tighter, or is the SAME operator on the side its associativity groups to
            let need = match parent { None => false, Some((pop, on_left)) => { let (plv, pleft) = level(pop);
                lv < plv || (lv == plv && !(std::mem::discriminant(pop) == std::mem::discriminant(op) && on_left == pleft)) } };
            wrap(body, need)
        }
        Exp::UnOp(UnOp::Neg, x) => format!("-{}", match &**x { Exp::Variable(_) => text_min(x, None), _ => format!("({})", text_min(x, None)) }),
        Exp::UnOp(UnOp::Not, x) => format!("not {}", match &**x { Exp::Variable(_) => text_min(x, None), _ => format!("({})", text_min(x, None)) }),
        Exp::Not(x) => format!("not {}", match &**x { Exp::Variable(_) => text_min(x, None), _ => format!("({})", text_min(x, None)) }),
        Exp::Abs(x) => format!("abs{{ {} }}", text_min(x, None)),
        Exp::Min(l) => format!("min{{ {} }}", l.iter().map(|x| text_min(x, None)).collect::<Vec<_>>().join(", ")),
        Exp::Max(l) => format!("max{{ {} }}", l.iter().map(|x| text_min(x, None)).collect::<Vec<_>>().join(", ")),
        other => text(other),
    }
}

struct G;
impl G {
    fn affine(r: &mut Rng, ints: &[String]) -> Exp {
        let n = 1 + r.below(2);
        let mut e: Option<Exp> = None;
        for _ in 0..n {
            let v = var(&ints[r.below(ints.len())]);
            let c = *r.pick(&[1.0, 1.0, 2.0, -1.0, 3.0, -2.0]);
            let t = if c == 1.0 { v } else { bin(BinOp::Mul, num(c), v) };
            e = Some(match e { None => t, Some(p) => bin(if r.chance(1, 2) { BinOp::Add } else { BinOp::Sub }, p, t) });
        }
        let e = e.unwrap();
        if r.chance(1, 3) { bin(BinOp::Add, e, num(*r.pick(&[1.0, 2.0, -1.0, 3.0]))) } else { e }
    }
    fn arith(r: &mut Rng, ints: &[String], bools: &[String], depth: usize) -> Exp {
        if depth == 0 || r.chance(1, 2) { return Self::affine(r, ints); }
        match r.below(10) {
            7 => { let inner = match r.below(4) { 0 => Exp::Abs(b(Self::affine(r, ints))), 1 => Exp::Max(vec![Self::affine(r, ints), Self::affine(r, ints)]), 2 => Exp::Min(vec![Self::affine(r, ints), Self::affine(r, ints)]), _ => Self::arith(r, ints, bools, depth - 1) };
                   bin(BinOp::Div, inner, num(*r.pick(&[2.0, -2.0, -1.0, 4.0, -4.0, -2.0, 2.0]))) }
            8 => { let k = |r: &mut Rng| num(*r.pick(&[-1.0, -3.0, -2.0, 2.0, 0.0, 1.0])); bin(BinOp::Add, Self::affine(r, ints), if r.chance(1, 2) { Exp::Max(vec![k(r), k(r)]) } else { Exp::Min(vec![k(r), k(r), k(r)]) }) }
            9 => if r.chance(1, 2) { bin(BinOp::Sub, Self::arith(r, ints, bools, depth - 1), Self::affine(r, ints)) }
                 else { bin(BinOp::Div, bin(BinOp::Add, bin(BinOp::Add, Self::affine(r, ints), Self::affine(r, ints)), Self::arith(r, ints, bools, depth - 1)), num(3.0)) },   // avg{ a, b, c }
            0 | 1 => Exp::Abs(b(Self::arith(r, ints, bools, depth - 1))),
            2 => Exp::Max(vec![Self::arith(r, ints, bools, depth - 1), Self::arith(r, ints, bools, depth - 1)]),
            3 => Exp::Min(vec![Self::arith(r, ints, bools, depth - 1), Self::arith(r, ints, bools, depth - 1)]),
            4 => bin(BinOp::Add, Self::arith(r, ints, bools, depth - 1), Self::arith(r, ints, bools, depth - 1)),
            5 => bin(BinOp::Mul, num(*r.pick(&[2.0, -1.0, 3.0])), Self::arith(r, ints, bools, depth - 1)),
            _ => if bools.is_empty() { Self::affine(r, ints) } else { { let dl = 1 + r.below(2); let l = Self::logic(r, bools, dl); let c = *r.pick(&[1.0, 1.0, 2.0, -1.0, 3.0, -2.0]);
                   bin(BinOp::Add, Self::affine(r, ints), if c == 1.0 { l } else { bin(BinOp::Mul, num(c), l) }) } },
        }
    }
    fn logic(r: &mut Rng, bools: &[String], depth: usize) -> Exp {
        if depth == 0 || r.chance(1, 3) { return var(&bools[r.below(bools.len())]); }
        let d = depth - 1;
        let leaf = |r: &mut Rng| { let v = var(&bools[r.below(bools.len())]); if r.chance(1, 4) { Exp::UnOp(UnOp::Not, b(v)) } else { v } };
        match r.below(12) {
            // `a and b and c`, `a or b or c`: one n-ary node
            10 | 11 => { let l = vec![leaf(r), Self::logic(r, bools, d), leaf(r)]; if r.chance(1, 2) { Exp::And(l) } else { Exp::Or(l) } }
            // chains whose grouping comes from associativity alone when printed without parentheses
            7 => Exp::BinOp(BinOp::Implies, b(leaf(r)), b(Exp::BinOp(BinOp::Implies, b(leaf(r)), b(leaf(r))))),
            8 => Exp::BinOp(BinOp::Iff, b(Exp::BinOp(BinOp::Iff, b(leaf(r)), b(leaf(r)))), b(leaf(r))),
            9 => Exp::BinOp(BinOp::Or, b(Exp::BinOp(BinOp::And, b(leaf(r)), b(leaf(r)))), b(Exp::BinOp(BinOp::Xor, b(leaf(r)), b(leaf(r))))),
            0 => if r.chance(1, 3) { let l = vec![leaf(r), Self::logic(r, bools, d), leaf(r)]; if r.chance(1, 2) { Exp::And(l) } else { Exp::Or(l) } }   // `a and b and c`: one n-ary node
                 else { Exp::BinOp(BinOp::And, b(Self::logic(r, bools, d)), b(Self::logic(r, bools, d))) },
            1 => Exp::BinOp(BinOp::Or, b(Self::logic(r, bools, d)), b(Self::logic(r, bools, d))),
            2 => Exp::UnOp(UnOp::Not, b(Self::logic(r, bools, d))),
            3 => Exp::BinOp(BinOp::Xor, b(Self::logic(r, bools, d)), b(Self::logic(r, bools, d))),
            4 => Exp::BinOp(BinOp::Implies, b(Self::logic(r, bools, d)), b(Self::logic(r, bools, d))),
            5 => Exp::BinOp(BinOp::Iff, b(Self::logic(r, bools, d)), b(Self::logic(r, bools, d))),
            _ => Exp::BinOp(BinOp::And, b(Self::logic(r, bools, d)), b(Exp::UnOp(UnOp::Not, b(Self::logic(r, bools, d))))),
        }
    }
}

fn gen_text(r: &mut Rng, i: usize) -> Value {
    let ni = 1 + r.below(2); let nb = r.below(4);
    let mut decls: Vec<VarDecl> = Vec::new();
    for j in 0..ni {
        // now and then a range that reaches further below zero than above it (|lower| > upper)
        let (lo, hi) = if r.chance(1, 3) { let lo = r.range(-6, -2) as i32; (lo, lo + r.range(2, 7) as i32) } else { let lo = r.range(-2, 1) as i32; (lo, lo + r.range(1, 4) as i32) };
        decls.push(VarDecl { name: ["x", "y"][j].to_string(), ty: VariableType::IntegerRange(lo, hi), used: true }); }
    for j in 0..nb { decls.push(VarDecl { name: ["p", "q"][j.min(1)].to_string() + if j == 2 { "2" } else { "" }, ty: VariableType::Boolean, used: true }); }
    let ints: Vec<String> = decls.iter().filter(|d| !matches!(d.ty, VariableType::Boolean)).map(|d| d.name.clone()).collect();
    let bools: Vec<String> = decls.iter().filter(|d| matches!(d.ty, VariableType::Boolean)).map(|d| d.name.clone()).collect();
    let nc = 1 + r.below(3);
    let mut cs = Vec::new();
    // right-hand sides written as named constants of the `where` section, defined by constant expressions
    let consts: [(f64, &str); 10] = [(3.5, "7 / 2"), (0.5, "1 / 2"), (1.5, "3 / 2"), (2.0, "4 / 2"), (-1.5, "(0 - 3) / 2"), (2.5, "5 / 2"), (1.0, "3 - 2"), (6.0, "2 * 3"), (0.75, "3 / 4"), (2.0, "5 - 6 / 2")];
    let mut named: Vec<(usize, String, String)> = Vec::new();
    for j in 0..nc {
        let name = if r.chance(1, 4) { format!("c{j}") } else { String::new() };
        if !bools.is_empty() && r.chance(1, 3) { cs.push(Constraint::new_logic_assertion(G::logic(r, &bools, 2), name)); continue; }
        // a block divided by a constant against a constant: the bound requirement has to travel through the division
        if r.chance(1, 6) { let blk = match r.below(3) { 0 => Exp::Abs(b(G::affine(r, &ints))), 1 => Exp::Max(vec![G::affine(r, &ints), G::affine(r, &ints)]), _ => Exp::Min(vec![G::affine(r, &ints), G::affine(r, &ints)]) };
            let dv = *r.pick(&[2.0, 3.0, -2.0, 4.0]); let lhs = if r.chance(1, 2) { bin(BinOp::Div, blk, num(dv)) } else { Exp::Max(vec![bin(BinOp::Div, blk, num(dv)), G::affine(r, &ints)]) };
            cs.push(Constraint::new(lhs, if r.chance(1, 2) { Comparison::LessOrEqual } else { Comparison::GreaterOrEqual }, num(*r.pick(&[1.0, 2.0, 0.0, -1.0])), name)); continue; }
        let cmp = match r.below(5) { 0 | 1 => Comparison::LessOrEqual, 2 | 3 => Comparison::GreaterOrEqual, _ => Comparison::Equal };
        let rhs = if r.chance(1, 6) { let (v, def) = *r.pick(&consts); named.push((cs.len(), format!("k{}", j), def.to_string())); num(v) }
                  else if r.chance(2, 3) { num(*r.pick(&[0.0, 1.0, 2.0, 3.0, -1.0, 4.0])) } else { G::affine(r, &ints) };
        cs.push(Constraint::new(G::arith(r, &ints, &bools, 2), cmp, rhs, name));
    }
    let ot = match r.below(5) { 0 | 1 => OptimizationType::Min, 2 | 3 => OptimizationType::Max, _ => OptimizationType::Satisfy };
    let obj = if matches!(ot, OptimizationType::Satisfy) { num(0.0) } else { let d = 1 + r.below(2); G::arith(r, &ints, &bools, d) };
    // every declared variable must occur in the text (the transformer rejects unused declarations otherwise? no - but keeps usage marks honest)
    let m = build_model(ot.clone(), obj.clone(), cs.clone(), &decls);
    let mut used = Vec::new();
    harness::eval::vars_of(&obj, &mut used);
    for c in &cs { harness::eval::vars_of(c.lhs(), &mut used); harness::eval::vars_of(c.rhs(), &mut used); }
    let decls2: Vec<VarDecl> = decls.iter().map(|d| VarDecl { name: d.name.clone(), ty: d.ty, used: used.contains(&d.name) }).collect();
    let m2 = build_model(ot.clone(), obj.clone(), cs.clone(), &decls2);
    let _ = m;
    let minimal = r.chance(1, 2);
    let text = |e: &Exp| if minimal { text_min(e, None) } else { text(e) };
    let head = match ot { OptimizationType::Min => format!("min {}", text(&obj)), OptimizationType::Max => format!("max {}", text(&obj)), OptimizationType::Satisfy => "solve".to_string() };
    let body: Vec<String> = cs.iter().enumerate().map(|(ci, c)| {
        let n = if c.name().is_empty() { String::new() } else { format!("{}: ", c.name()) };
        let rhs_text = match named.iter().find(|(k, _, _)| *k == ci) { Some((_, nm, _)) => nm.clone(), None => text(c.rhs()) };
        if c.is_logic_assertion() { format!("    {}{}", n, text(c.lhs())) } else { format!("    {}{} {} {}", n, text(c.lhs()), match c.constraint_type() { Comparison::LessOrEqual => "<=", Comparison::GreaterOrEqual => ">=", _ => "=" }, rhs_text) }
    }).collect();
    let wh = if named.is_empty() { String::new() } else { format!("\nwhere\n{}", named.iter().map(|(_, nm, def)| format!("    let {} = {}", nm, def)).collect::<Vec<_>>().join("\n")) };
    let defs: Vec<String> = decls.iter().filter(|d| used.contains(&d.name)).map(|d| match d.ty { VariableType::Boolean => format!("    {} as Boolean", d.name), VariableType::IntegerRange(a, c) => format!("    {} as IntegerRange({}, {})", d.name, a, c), _ => unreachable!() }).collect();
    let src = format!("{}\ns.t.\n{}{}\ndefine\n{}", head, body.join("\n"), wh, defs.join("\n"));
    json!({"id": i, "text": src, "coq": model(&m2), "vars": decls.iter().filter(|d| used.contains(&d.name)).map(|d| d.name.clone()).collect::<Vec<_>>(), "dir": match ot { OptimizationType::Min => "min", OptimizationType::Max => "max", _ => "sat" }})
}

fn corpus(i0: usize) -> Vec<Value> {
    let mk = |i: usize, src: &str, coq: &str, vars: Vec<&str>, dir: &str| json!({"id": i, "text": src, "coq": coq, "vars": vars, "dir": dir});
    vec![
        // F2 witness: a variable-free contradictory model
        mk(i0, "min 1\ns.t.\n    1 <= 0", "(mkModel DMin (Num (F (1) (0))) [(mkConstr \"\" (Num (F (1) (0))) Le (Num (F 0 0)) false)] [])", vec![], "min"),
        mk(i0 + 1, "max x\ns.t.\n    abs{ x - 1 } <= 0\ndefine\n    x as Boolean", "(mkModel DMax (Var \"x\") [(mkConstr \"\" (Abs (BinOp Sub (Var \"x\") (Num (F (1) (0))))) Le (Num (F 0 0)) false)] [(\"x\", mkDV TBoolean true)])", vec!["x"], "max"),
    ]
}

fn main() {
    let args: Vec<String> = std::env::args().collect();
    match args[1].as_str() {
        "gen" => {
            let seed: u64 = args[2].parse().unwrap(); let n: usize = args[3].parse().unwrap();
            let mut r = Rng::new(seed ^ 0xC03);
            let mut f = std::io::BufWriter::new(std::fs::File::create(&args[4]).unwrap());
            let c = corpus(0);
            let nc = c.len();
            for v in c { writeln!(f, "{}", v).unwrap(); }
            for i in 0..n { writeln!(f, "{}", gen_text(&mut r, nc + i)).unwrap(); }
        }
        "worker" => {
            std::panic::set_hook(Box::new(|_| {}));
            let start_i: usize = args[3].parse().unwrap();
            let file = std::io::BufReader::new(std::fs::File::open(&args[2]).unwrap());
            let out = std::io::stdout();
            for (i, line) in file.lines().enumerate() {
                if i < start_i { continue; }
                let v: Value = serde_json::from_str(&line.unwrap()).unwrap();
                let src = v["text"].as_str().unwrap().to_string();
                { let mut o = out.lock(); writeln!(o, "S {} 0", i).unwrap(); o.flush().unwrap(); }
                let res = std::panic::catch_unwind(|| {
                    match rooc::RoocSolver::try_new(src.clone()) {
                        Err(e) => json!({"status":"compile-error","stage":"parse","message": format!("{:?}", e).chars().take(200).collect::<String>()}),
                        Ok(s) => match s.solve_using(rooc::auto_solver) {
                            Ok(sol) => { let assign: Vec<Value> = sol.assignment().iter().map(|a| { let v: f64 = a.value.into(); json!([a.name, format!("{:?}", v)]) }).collect(); json!({"status":"ok","value": format!("{:?}", sol.value()), "assign": assign}) }
                            Err(rooc::RoocSolverError::Solver(e)) => json!({"status":"solver-error","kind": match e { rooc::SolverError::Infeasible => "Infeasible", rooc::SolverError::Unbounded => "Unbounded", _ => "Other" }, "message": e.to_string()}),
                            Err(rooc::RoocSolverError::Linearization(e)) => json!({"status":"compile-error","stage":"linearize","message": e.to_string()}),
                            Err(rooc::RoocSolverError::Transform(e)) => json!({"status":"compile-error","stage":"transform","message": format!("{}", e.traced_error())}),
                        },
                    }
                }).unwrap_or_else(|_| json!({"status":"panic"}));
                let mut o = out.lock(); writeln!(o, "R {} 0 {}", i, res).unwrap(); o.flush().unwrap();
            }
            println!("DONE");
        }
        _ => panic!("unknown mode"),
    }
}
