//! C16 harness: the same model through every front door.
//!  gen:    writes cases.jsonl (serialised models) + cases.txt (Coq tie: builder tree, into_model's tree, eval points)
//!          and evaluates in-process: builder.linearize() vs text front end vs staged pipes (row for row)
//!  worker: solves each case through the builder (Auto), RoocSolver::solve_using(auto_solver) and the pipe runner
//!          under the driver's watchdog; prints verdict, value, handle values, eval(objective), unused-variable values
use harness::{coqfmt as cq, gens::b, models::*, report::Report, rng::Rng};
use indexmap::IndexMap;
use rooc::model_transformer::{Exp, Model};
use rooc::pipe::{AutoSolverPipe, CompilerPipe, LinearModelPipe, ModelPipe, PipeContext, PipeRunner, PipeableData, PreModelPipe};
use rooc::builder::{abs, all, any, max, min};
use rooc::{BinOp, BuilderConstraint, Comparison, Expr, LinearModel, Linearizer, ModelBuilder, OptimizationType, RoocParser, UnOp, Var, VariableType};
use serde::{Deserialize, Serialize};
use serde_json::{json, Value};
use std::io::{BufRead, Write};

#[derive(Serialize, Deserialize, Clone, Debug)]
enum BT { Num(f64), Var(usize), Abs(Box<BT>), Min(Vec<BT>), Max(Vec<BT>), And(Vec<BT>), Or(Vec<BT>), Not(Box<BT>), Xor(Box<BT>, Box<BT>), Implies(Box<BT>, Box<BT>), Iff(Box<BT>, Box<BT>), Bin(u8, Box<BT>, Box<BT>), Neg(Box<BT>) }
#[derive(Serialize, Deserialize, Clone, Debug)]
struct Decl { name: String, kind: u8, lo: Option<f64>, hi: Option<f64> }
impl Decl { fn l(&self) -> f64 { self.lo.unwrap_or(f64::NEG_INFINITY) } fn h(&self) -> f64 { self.hi.unwrap_or(f64::INFINITY) } }
fn fin(v: f64) -> Option<f64> { if v.is_finite() { Some(v) } else { None } }
#[derive(Serialize, Deserialize, Clone, Debug)]
struct Con { name: String, lhs: BT, cmp: u8, rhs: BT, assertion: bool }
#[derive(Serialize, Deserialize, Clone, Debug)]
struct Case { decls: Vec<Decl>, cons: Vec<Con>, dir: u8, obj: BT, order: u8, extra: Vec<BT> }

fn vt(d: &Decl) -> VariableType { match d.kind { 0 => VariableType::Boolean, 1 => VariableType::IntegerRange(d.l() as i32, d.h() as i32), 2 => VariableType::NonNegativeReal(d.l(), d.h()), _ => VariableType::Real(d.l(), d.h()) } }
fn decl_of(v: &VarDecl) -> Decl { match v.ty { VariableType::Boolean => Decl { name: v.name.clone(), kind: 0, lo: Some(0.0), hi: Some(1.0) }, VariableType::IntegerRange(l, h) => Decl { name: v.name.clone(), kind: 1, lo: Some(l as f64), hi: Some(h as f64) }, VariableType::NonNegativeReal(l, h) => Decl { name: v.name.clone(), kind: 2, lo: fin(l), hi: fin(h) }, VariableType::Real(l, h) => Decl { name: v.name.clone(), kind: 3, lo: fin(l), hi: fin(h) } } }
fn binop(k: u8) -> BinOp { [BinOp::Add, BinOp::Sub, BinOp::Mul, BinOp::Div][k as usize] }
fn cmp(k: u8) -> Comparison { [Comparison::LessOrEqual, Comparison::GreaterOrEqual, Comparison::Equal][k as usize] }
fn cmp_code(c: &Comparison) -> u8 { match c { Comparison::LessOrEqual => 0, Comparison::GreaterOrEqual => 1, _ => 2 } }

fn from_exp(e: &Exp, names: &[String]) -> BT {
    let f = |x: &Exp| Box::new(from_exp(x, names));
    let l = |xs: &Vec<Exp>| xs.iter().map(|x| from_exp(x, names)).collect::<Vec<_>>();
    match e {
        Exp::Number(v) => BT::Num(*v), Exp::Variable(n) => BT::Var(names.iter().position(|x| x == n).unwrap()),
        Exp::Abs(x) => BT::Abs(f(x)), Exp::Min(xs) => BT::Min(l(xs)), Exp::Max(xs) => BT::Max(l(xs)), Exp::And(xs) => BT::And(l(xs)), Exp::Or(xs) => BT::Or(l(xs)),
        Exp::Not(x) | Exp::UnOp(UnOp::Not, x) => BT::Not(f(x)), Exp::Xor(a, c) | Exp::BinOp(BinOp::Xor, a, c) => BT::Xor(f(a), f(c)),
        Exp::Implies(a, c) | Exp::BinOp(BinOp::Implies, a, c) => BT::Implies(f(a), f(c)), Exp::Iff(a, c) | Exp::BinOp(BinOp::Iff, a, c) => BT::Iff(f(a), f(c)),
        Exp::BinOp(BinOp::And, a, c) => BT::And(vec![from_exp(a, names), from_exp(c, names)]), Exp::BinOp(BinOp::Or, a, c) => BT::Or(vec![from_exp(a, names), from_exp(c, names)]),
        Exp::BinOp(op, a, c) => BT::Bin(match op { BinOp::Add => 0, BinOp::Sub => 1, BinOp::Mul => 2, _ => 3 }, f(a), f(c)),
        Exp::UnOp(UnOp::Neg, x) => match &**x { Exp::Number(v) => BT::Num(-v), _ => BT::Neg(f(x)) },
    }
}
/// the builder expression, through the public API: operators, helper functions and methods
fn to_builder(t: &BT, vars: &[Var]) -> Expr {
    let g = |x: &BT| to_builder(x, vars);
    match t {
        BT::Num(v) => Expr::from(*v), BT::Var(i) => Expr::from(vars[*i]),
        BT::Abs(x) => abs(g(x)), BT::Min(xs) => min(xs.iter().map(g).collect::<Vec<_>>()), BT::Max(xs) => max(xs.iter().map(g).collect::<Vec<_>>()),
        BT::And(xs) => if xs.len() == 2 { g(&xs[0]) & g(&xs[1]) } else { all(xs.iter().map(g).collect::<Vec<_>>()) },
        BT::Or(xs) => if xs.len() == 2 { g(&xs[0]) | g(&xs[1]) } else { any(xs.iter().map(g).collect::<Vec<_>>()) },
        BT::Not(x) => !g(x), BT::Xor(a, c) => g(a) ^ g(c), BT::Implies(a, c) => g(a).implies(g(c)), BT::Iff(a, c) => g(a).iff(g(c)),
        // an integer-valued literal next to a composite expression goes through the `i32 OP Expr` / `Expr OP i32` impls
        BT::Bin(k, a, c) if matches!(&**a, BT::Num(v) if v.fract() == 0.0 && v.abs() < 1000.0) && !matches!(&**c, BT::Num(_) | BT::Var(_)) && *k <= 3 =>
            { let n = if let BT::Num(v) = &**a { *v as i32 } else { 0 }; match k { 0 => n + g(c), 1 => n - g(c), 2 => n * g(c), _ => n / g(c) } }
        BT::Bin(k, a, c) if matches!(&**c, BT::Num(v) if v.fract() == 0.0 && v.abs() < 1000.0 && *v != 0.0) && !matches!(&**a, BT::Num(_) | BT::Var(_)) && *k <= 3 =>
            { let n = if let BT::Num(v) = &**c { *v as i32 } else { 1 }; match k { 0 => g(a) + n, 1 => g(a) - n, 2 => g(a) * n, _ => g(a) / n } }
        BT::Bin(0, a, c) => match (&**a, &**c) { (BT::Var(i), BT::Var(j)) => vars[*i] + vars[*j], (BT::Num(v), BT::Var(j)) => *v + vars[*j], (BT::Var(i), BT::Num(v)) => vars[*i] + *v, _ => g(a) + g(c) },
        BT::Bin(1, a, c) => match (&**a, &**c) { (BT::Var(i), BT::Var(j)) => vars[*i] - vars[*j], (BT::Num(v), BT::Var(j)) => *v - vars[*j], (BT::Var(i), BT::Num(v)) => vars[*i] - *v, _ => g(a) - g(c) },
        BT::Bin(2, a, c) => match (&**a, &**c) { (BT::Num(v), BT::Var(j)) => *v * vars[*j], (BT::Var(i), BT::Num(v)) => vars[*i] * *v, (BT::Num(v), _) => *v * g(c), (_, BT::Num(v)) => g(a) * *v, _ => g(a) * g(c) },
        BT::Bin(_, a, c) => match (&**a, &**c) { (BT::Var(i), BT::Num(v)) => vars[*i] / *v, (_, BT::Num(v)) => g(a) / *v, _ => g(a) / g(c) },
        BT::Neg(x) => match &**x { BT::Var(i) => -vars[*i], _ => -g(x) },
    }
}
fn to_text(t: &BT, names: &[String], logic: bool) -> String {
    let g = |x: &BT, l: bool| to_text(x, names, l);
    let join = |xs: &Vec<BT>, sep: &str, l: bool| xs.iter().map(|x| g(x, l)).collect::<Vec<_>>().join(sep);
    match t {
        BT::Num(v) => if logic && *v == 1.0 { "true".into() } else if logic && *v == 0.0 { "false".into() } else if *v < 0.0 { format!("(-{})", -v) } else { format!("{}", v) },
        BT::Var(i) => names[*i].clone(), BT::Abs(x) => format!("abs{{ {} }}", g(x, false)),
        BT::Min(xs) => format!("min{{ {} }}", join(xs, ", ", false)), BT::Max(xs) => format!("max{{ {} }}", join(xs, ", ", false)),
        BT::And(xs) => if xs.len() == 2 { format!("({} and {})", g(&xs[0], true), g(&xs[1], true)) } else { format!("all{{ {} }}", join(xs, ", ", true)) },
        BT::Or(xs) => if xs.len() == 2 { format!("({} or {})", g(&xs[0], true), g(&xs[1], true)) } else { format!("any{{ {} }}", join(xs, ", ", true)) },
        BT::Not(x) => format!("(not {})", g(x, true)), BT::Xor(a, c) => format!("({} xor {})", g(a, true), g(c, true)),
        BT::Implies(a, c) => format!("({} implies {})", g(a, true), g(c, true)), BT::Iff(a, c) => format!("({} iff {})", g(a, true), g(c, true)),
        BT::Bin(k, a, c) => format!("({} {} {})", g(a, false), ["+", "-", "*", "/"][*k as usize], g(c, false)),
        BT::Neg(x) => format!("(-({}))", g(x, false)),
    }
}
fn to_coq(t: &BT) -> String {
    let l = |xs: &Vec<BT>| format!("[{}]", xs.iter().map(to_coq).collect::<Vec<_>>().join("; "));
    match t {
        BT::Num(v) => format!("(ENum {})", cq::xq(*v)), BT::Var(i) => format!("(EVar {}%nat)", i), BT::Abs(x) => format!("(EAbs {})", to_coq(x)),
        BT::Min(xs) => format!("(EMin {})", l(xs)), BT::Max(xs) => format!("(EMax {})", l(xs)), BT::And(xs) => format!("(EAnd {})", l(xs)), BT::Or(xs) => format!("(EOr {})", l(xs)),
        BT::Not(x) => format!("(ENot {})", to_coq(x)), BT::Xor(a, c) => format!("(EXor {} {})", to_coq(a), to_coq(c)), BT::Implies(a, c) => format!("(EImplies {} {})", to_coq(a), to_coq(c)), BT::Iff(a, c) => format!("(EIff {} {})", to_coq(a), to_coq(c)),
        BT::Bin(k, a, c) => format!("(EBin {} {} {})", ["Add", "Sub", "Mul", "Div"][*k as usize], to_coq(a), to_coq(c)), BT::Neg(x) => format!("(EUn Neg {})", to_coq(x)),
    }
}

/// C16 call sequences: the case's variables (sometimes with a duplicate declaration), its constraints split at random into
/// with / with_all groups, and one to three objective calls anywhere in between; the real ModelBuilder runs the calls.
fn ops_case(c: &Case, r: &mut Rng) -> (String, String) {
    #[derive(Clone)] enum Op { Var(usize, bool), With(usize), WithAll(usize, usize), Min, Max, Sat }
    let mut ops: Vec<Op> = (0..c.decls.len()).map(|j| Op::Var(j, false)).collect();
    // constraints in order, grouped at random
    let mut k = 0; let mut cons_ops = Vec::new();
    while k < c.cons.len() { let g = 1 + r.below(3).min(c.cons.len() - k - 0).min(c.cons.len() - k); let g = g.max(1).min(c.cons.len() - k);
        if g == 1 && r.chance(1, 2) { cons_ops.push(Op::With(k)); } else { cons_ops.push(Op::WithAll(k, k + g)); } k += g; }
    if r.chance(1, 6) { cons_ops.push(Op::WithAll(0, 0)); }
    ops.extend(cons_ops);
    // objective calls anywhere after the variables (the expressions need the handles)
    let nv = c.decls.len();
    for _ in 0..1 + r.below(3) { let pos = nv + r.below(ops.len() - nv + 1); ops.insert(pos, match r.below(3) { 0 => Op::Min, 1 => Op::Max, _ => Op::Sat }); }
    if r.chance(1, 5) { ops.retain(|o| !matches!(o, Op::Min | Op::Max | Op::Sat)); }   // no objective call at all: defaults to satisfy
    // now and then a name is declared twice (add_var panics)
    if r.chance(1, 8) && nv > 0 { let j = r.below(nv); let pos = nv + r.below(ops.len() - nv + 1); ops.insert(pos, Op::Var(j, true)); }
    let bcon = |k: &Con| format!("(mkBC {} {} {} {} {})", cq::string(&k.name), to_coq(&k.lhs), ["Le", "Ge", "Eq"][k.cmp as usize], to_coq(&k.rhs), cq::boolean(k.assertion));
    let coq_ops: Vec<String> = ops.iter().map(|o| match o {
        Op::Var(j, _) => format!("(OVar {} {})", cq::string(&c.decls[*j].name), vtype(&vt(&c.decls[*j]))),
        Op::With(k) => format!("(OWith {})", bcon(&c.cons[*k])),
        Op::WithAll(a, z) => format!("(OWithAll [{}])", c.cons[*a..*z].iter().map(&bcon).collect::<Vec<_>>().join("; ")),
        Op::Min => format!("(OMin {})", to_coq(&c.obj)), Op::Max => format!("(OMax {})", to_coq(&c.obj)), Op::Sat => "OSat".to_string() }).collect();
    let ops2 = ops.clone(); let c2 = c.clone();
    let built = std::panic::catch_unwind(move || {
        let mut mb = ModelBuilder::new(); let mut vars: Vec<Var> = Vec::new();
        let mk = |k: &Con, vars: &[Var]| if k.assertion { BuilderConstraint::new_logic_assertion(to_builder(&k.lhs, vars), k.name.clone()) } else { BuilderConstraint::new(to_builder(&k.lhs, vars), cmp(k.cmp), to_builder(&k.rhs, vars), k.name.clone()) };
        for o in &ops2 { match o {
            Op::Var(j, dup) => { let h = mb.add_var(c2.decls[*j].name.clone(), vt(&c2.decls[*j])); if !*dup { vars.push(h); } }
            Op::With(k) => { mb = mb.with(mk(&c2.cons[*k], &vars)); }
            Op::WithAll(a, z) => { mb = mb.with_all(c2.cons[*a..*z].iter().map(|k| mk(k, &vars)).collect::<Vec<_>>()); }
            Op::Min => { mb = mb.minimize(to_builder(&c2.obj, &vars)); } Op::Max => { mb = mb.maximize(to_builder(&c2.obj, &vars)); } Op::Sat => { mb = mb.satisfy(); } } }
        mb.into_model() });
    let observed = match built {
        Err(_) => "None".to_string(),
        Ok(m) => format!("(Some ({}, {}, [{}], [{}]))", match m.objective().objective_type { OptimizationType::Min => "DMin", OptimizationType::Max => "DMax", OptimizationType::Satisfy => "DSatisfy" }, cq::exp(&m.objective().rhs),
            m.constraints().iter().map(constraint).collect::<Vec<_>>().join("; "),
            m.domain().iter().map(|(k, d)| format!("({}, {}, {})", cq::string(k), vtype(d.get_type()), cq::boolean(d.is_used()))).collect::<Vec<_>>().join("; ")) };
    (format!("(mkOps [{}] {})", coq_ops.join("; "), observed), format!("{} calls: {}", ops.len(), ops.iter().map(|o| match o { Op::Var(j, d) => format!("add_var({}{})", c.decls[*j].name, if *d { " again" } else { "" }), Op::With(k) => format!("with(c{k})"), Op::WithAll(a, z) => format!("with_all(c{a}..c{z})"), Op::Min => "minimize".into(), Op::Max => "maximize".into(), Op::Sat => "satisfy".into() }).collect::<Vec<_>>().join(" ")))
}
fn build(c: &Case) -> (ModelBuilder, Vec<Var>) { build_with(c, false) }
/// `pin_unused`: declared-but-unused Real / NonNegativeReal variables with an infinite bound are declared `Real(0, 0)` instead
/// (nothing else changes) - used only to attribute a disagreement to finding F19b
fn build_with(c: &Case, pin_unused: bool) -> (ModelBuilder, Vec<Var>) {
    let mut mb = ModelBuilder::new();
    let used = used_in(c);
    let vars: Vec<Var> = c.decls.iter().enumerate().map(|(j, d)| { let t = vt(d);
        let t = if pin_unused && !used[j] { match t { VariableType::Real(l, h) | VariableType::NonNegativeReal(l, h) if l.is_infinite() || h.is_infinite() => VariableType::Real(0.0, 0.0), other => other } } else { t };
        mb.add_var(d.name.clone(), t) }).collect();
    let cons: Vec<BuilderConstraint> = c.cons.iter().map(|k| if k.assertion { BuilderConstraint::new_logic_assertion(to_builder(&k.lhs, &vars), k.name.clone()) } else { BuilderConstraint::new(to_builder(&k.lhs, &vars), cmp(k.cmp), to_builder(&k.rhs, &vars), k.name.clone()) }).collect();
    let obj = |m: ModelBuilder| match c.dir { 0 => m.minimize(to_builder(&c.obj, &vars)), 1 => m.maximize(to_builder(&c.obj, &vars)), 2 => m.satisfy(), _ => m };
    // order of builder calls: objective first / last / in the middle, with() one by one or with_all()
    let mb = match c.order % 4 {
        0 => { let mut m = obj(mb); for k in cons { m = m.with(k); } m }
        1 => { let mut m = mb; for k in cons { m = m.with(k); } obj(m) }
        2 => obj(mb.with_all(cons)),
        _ => { let half = cons.len() / 2; let (a, z) = (cons[..half].to_vec(), cons[half..].to_vec()); obj(mb.with_all(a)).with_all(z) }
    };
    (mb, vars)
}
fn text_of(c: &Case) -> String {
    let names: Vec<String> = c.decls.iter().map(|d| d.name.clone()).collect();
    let obj = match c.dir { 0 => format!("min {}", to_text(&c.obj, &names, false)), 1 => format!("max {}", to_text(&c.obj, &names, false)), _ => "solve".to_string() };
    let cs: Vec<String> = c.cons.iter().map(|k| { let nm = if k.name.is_empty() { String::new() } else { format!("{}: ", k.name) };
        if k.assertion { format!("    {}{}", nm, to_text(&k.lhs, &names, true)) } else { format!("    {}{} {} {}", nm, to_text(&k.lhs, &names, false), cmp(k.cmp), to_text(&k.rhs, &names, false)) } }).collect();
    let ds: Vec<String> = c.decls.iter().map(|d| format!("    {} as {}", d.name, vt(d))).collect();
    format!("{}\ns.t.\n{}\ndefine\n{}", obj, cs.join("\n"), ds.join("\n"))
}
fn used_in(c: &Case) -> Vec<bool> {
    fn walk(t: &BT, u: &mut Vec<bool>) { match t { BT::Num(_) => {}, BT::Var(i) => u[*i] = true, BT::Abs(x) | BT::Not(x) | BT::Neg(x) => walk(x, u), BT::Min(xs) | BT::Max(xs) | BT::And(xs) | BT::Or(xs) => xs.iter().for_each(|x| walk(x, u)), BT::Xor(a, c) | BT::Implies(a, c) | BT::Iff(a, c) | BT::Bin(_, a, c) => { walk(a, u); walk(c, u); } } }
    let mut u = vec![false; c.decls.len()];
    if c.dir < 2 { walk(&c.obj, &mut u); }
    for k in &c.cons { walk(&k.lhs, &mut u); if !k.assertion { walk(&k.rhs, &mut u); } }
    u
}
fn close(a: f64, c: f64) -> bool { a == c || (a - c).abs() <= 1e-9 * a.abs().max(c.abs()).max(1.0) }
fn rows(l: &LinearModel) -> Vec<String> {
    l.constraints().iter().map(|c| { let t: Vec<String> = c.coefficients().iter().enumerate().filter(|(_, v)| **v != 0.0).map(|(i, v)| format!("{:?}*{}", v, l.variables()[i])).collect(); format!("{}|{}|{}|{:?}", c.name(), t.join(" "), c.constraint_type(), c.rhs()) }).collect()
}
/// row-for-row comparison of two linear models over the variables they share; `only` = variables that must exist on both sides
fn same_linear(a: &LinearModel, c: &LinearModel, skip_vars: &[String]) -> Result<(), String> {
    if a.optimization_type() != c.optimization_type() { return Err(format!("direction {} vs {}", a.optimization_type(), c.optimization_type())); }
    let (ra, rc) = (rows(a), rows(c));
    if ra != rc { return Err(format!("rows {:?} vs {:?}", ra, rc)); }
    let obj = |l: &LinearModel| l.objective().iter().enumerate().filter(|(_, v)| **v != 0.0).map(|(i, v)| format!("{:?}*{}", v, l.variables()[i])).collect::<Vec<_>>();
    if obj(a) != obj(c) { return Err(format!("objective {:?} vs {:?}", obj(a), obj(c))); }
    if !matches!(a.optimization_type(), OptimizationType::Satisfy) && !close(a.objective_offset(), c.objective_offset()) { return Err(format!("offset {} vs {}", a.objective_offset(), c.objective_offset())); }
    let dom = |l: &LinearModel| { let mut d: Vec<(String, String)> = l.variables().iter().filter(|v| !skip_vars.contains(v)).map(|v| (v.clone(), format!("{:?}", l.domain()[v].get_type()))).collect(); d.sort(); d };
    if dom(a) != dom(c) { return Err(format!("domains {:?} vs {:?}", dom(a), dom(c))); }
    Ok(())
}

struct Fixed { values: IndexMap<String, f64> }
struct FixedSol { values: IndexMap<String, f64> }
impl rooc::Solution for FixedSol { type Value = f64; fn objective_value(&self) -> f64 { 0.0 } fn var_value(&self, v: &str) -> Option<f64> { self.values.get(v).copied() } }
impl rooc::Solver for Fixed { type Solution = FixedSol; fn solve(&self, _: &LinearModel) -> Result<FixedSol, rooc::SolverError> { Ok(FixedSol { values: self.values.clone() }) } }

/// models written with the declarative macros (every arm of vars!, constraint! and expr!) and with add_vars families, each next to
/// the text program that says the same thing
fn macro_corpus() -> Vec<(&'static str, ModelBuilder, String)> {
    use rooc::{constraint, expr, vars};
    let mut cases: Vec<(&'static str, ModelBuilder, String)> = Vec::new();
    {
        let mut m = ModelBuilder::new();
        vars! { m => b0: bool; i0: int(-2, 5); r0: real; r1: real(-3.0, 4.5); n0: nonneg; n1: nonneg(0.5, 7.0); };
        let mb = m.minimize(r0 + r1 + n0 + n1 + i0 + b0)
            .with(constraint!(r0 >= -4.0)).with(constraint!(n0 + n1 <= 9.0)).with(constraint!(cap: r0 + r1 + i0 <= 3.0)).with(constraint!(r1 + b0 == 1.0));
        cases.push(("vars! scalar arms, constraint! comparison arms", mb,
            "min r0 + r1 + n0 + n1 + i0 + b0\ns.t.\n    r0 >= -4\n    n0 + n1 <= 9\n    cap: r0 + r1 + i0 <= 3\n    r1 + b0 = 1\ndefine\n    b0 as Boolean\n    i0 as IntegerRange(-2, 5)\n    r0 as Real\n    r1 as Real(-3, 4.5)\n    n0 as NonNegativeReal\n    n1 as NonNegativeReal(0.5, 7)".to_string()));
    }
    {
        let mut m = ModelBuilder::new();
        vars! { m => bs[3]: bool; ks[2]: int(0, 4); rs[2]: real; rb[2]: real(-1.0, 2.0); ns[2]: nonneg; nb[2]: nonneg(1.0, 3.0); };
        let mb = m.minimize(rs[0] + rs[1] + rb[0] + rb[1] + ns[0] + ns[1] + nb[0] + nb[1] + ks[0] + ks[1] + bs[0] + bs[1] + bs[2])
            .with(constraint!(rs[0] >= -2.0)).with(constraint!(rs[1] >= -3.0)).with(constraint!(ks[0] + ks[1] >= 1.0)).with(constraint!(bs[0] + bs[1] + bs[2] >= 1.0));
        cases.push(("vars! array arms", mb,
            "min rs_0 + rs_1 + rb_0 + rb_1 + ns_0 + ns_1 + nb_0 + nb_1 + ks_0 + ks_1 + bs_0 + bs_1 + bs_2\ns.t.\n    rs_0 >= -2\n    rs_1 >= -3\n    ks_0 + ks_1 >= 1\n    bs_0 + bs_1 + bs_2 >= 1\ndefine\n    bs_i as Boolean for i in 0..3\n    ks_i as IntegerRange(0, 4) for i in 0..2\n    rs_i as Real for i in 0..2\n    rb_i as Real(-1, 2) for i in 0..2\n    ns_i as NonNegativeReal for i in 0..2\n    nb_i as NonNegativeReal(1, 3) for i in 0..2".to_string()));
    }
    {
        let mut m = ModelBuilder::new();
        vars! { m => a: bool; b: bool; c: bool; d: bool; x: real(0.0, 10.0); };
        let mb = m.maximize(2.0 * b - a + c + x - d)
            .with(constraint!(a <-> b)).with(constraint!(c -> a)).with(constraint!(any(vec![a, d]))).with(constraint!(lim: x < 7.5)).with(constraint!(x > 0.5)).with(constraint!(d -> !c));
        cases.push(("constraint! logic arms and strict comparisons", mb,
            "max 2 * b - a + c + x - d\ns.t.\n    a iff b\n    c implies a\n    any{ a, d }\n    lim: x < 7.5\n    x > 0.5\n    d implies (not c)\ndefine\n    a, b, c, d as Boolean\n    x as Real(0, 10)".to_string()));
    }
    {
        let mut m = ModelBuilder::new();
        vars! { m => p: bool; q: bool; y: real(0.0, 4.0); };
        let mb = m.minimize(y + expr!(p <-> q) + 2.0 * expr!(p -> q))
            .with(BuilderConstraint::new(expr!(y), Comparison::GreaterOrEqual, expr!(p <-> q), "e".to_string()));
        cases.push(("expr! arms inside arithmetic", mb,
            "min y + (p iff q) + 2 * (p implies q)\ns.t.\n    e: y >= (p iff q)\ndefine\n    p, q as Boolean\n    y as Real(0, 4)".to_string()));
    }
    {
        let mut m = ModelBuilder::new();
        let x = m.add_vars("x", 3, VariableType::Real(-1.0, 4.0));
        let z = m.add_vars("z", 2, VariableType::Boolean);
        let mb = m.minimize(x[0] + 2.0 * x[1] + 3.0 * x[2] - z[0] - z[1]).with(constraint!(x[0] + x[1] + x[2] >= 1.0)).with(constraint!(z[0] + z[1] <= 1.0)).with(constraint!(x[2] - x[0] >= -2.0));
        cases.push(("add_vars families", mb,
            "min x_0 + 2 * x_1 + 3 * x_2 - z_0 - z_1\ns.t.\n    x_0 + x_1 + x_2 >= 1\n    z_0 + z_1 <= 1\n    x_2 - x_0 >= -2\ndefine\n    x_i as Real(-1, 4) for i in 0..3\n    z_i as Boolean for i in 0..2".to_string()));
    }
    cases
}

#[derive(Debug)]
struct Doubler {}
impl rooc::RoocFunction for Doubler {
    fn call(&self, args: &[rooc::PreExp], context: &rooc::model_transformer::TransformerContext, fn_context: &rooc::type_checker::type_checker_context::FunctionContext) -> Result<rooc::Primitive, rooc::model_transformer::TransformError> {
        match args.first().unwrap().as_iterator(context, fn_context)? {
            rooc::IterableKind::Integers(i) => Ok(rooc::Primitive::Iterable(rooc::IterableKind::Integers(i.iter().map(|v| v * 2).collect()))),
            other => Ok(rooc::Primitive::Iterable(other)),
        }
    }
    fn type_signature(&self, _: &[rooc::PreExp], _: &rooc::type_checker::type_checker_context::TypeCheckerContext, _: &rooc::type_checker::type_checker_context::FunctionContext) -> Vec<(String, rooc::PrimitiveKind)> {
        vec![("of_array".to_string(), rooc::PrimitiveKind::Iterable(Box::new(rooc::PrimitiveKind::Integer)))]
    }
    fn return_type(&self, _: &[rooc::PreExp], _: &rooc::type_checker::type_checker_context::TypeCheckerContext, _: &rooc::type_checker::type_checker_context::FunctionContext) -> rooc::PrimitiveKind {
        rooc::PrimitiveKind::Iterable(Box::new(rooc::PrimitiveKind::Integer))
    }
    fn function_name(&self) -> String { "doubler".to_string() }
}

fn gen_case(r: &mut Rng, i: usize) -> Case {
    let gens = [ModelGen { logic: false, arith: true }, ModelGen { logic: true, arith: true }, ModelGen { logic: true, arith: false }, ModelGen { logic: false, arith: false }];
    let g = &gens[i % 4];
    let (m, d) = g.model(r);
    let names: Vec<String> = d.iter().map(|v| v.name.clone()).collect();
    let dir = match m.objective().objective_type { OptimizationType::Min => 0, OptimizationType::Max => 1, OptimizationType::Satisfy => if r.chance(1, 3) { 3 } else { 2 } };
    let cons = m.constraints().iter().map(|c| Con { name: c.name().to_string(), lhs: from_exp(c.lhs(), &names), cmp: cmp_code(&c.constraint_type()), rhs: from_exp(c.rhs(), &names), assertion: c.is_logic_assertion() }).collect();
    let extra: Vec<BT> = (0..2).map(|_| from_exp(&if g.logic && r.chance(1, 2) { g.logicv(r, &d, 3) } else { g.arith(r, &d, 2) }, &names)).collect();
    Case { decls: d.iter().map(decl_of).collect(), cons, dir, obj: from_exp(&m.objective().rhs, &names), order: r.below(4) as u8, extra }
}

fn main() {
    let args: Vec<String> = std::env::args().collect();
    std::panic::set_hook(Box::new(|_| {}));
    match args[1].as_str() {
        "gen" => {
            let seed: u64 = args[2].parse().unwrap(); let n: usize = args[3].parse().unwrap(); let outdir = &args[4];
            let mut r = Rng::new(seed ^ 0xC16);
            let mut rep = Report::default();
            let mut jf = std::io::BufWriter::new(std::fs::File::create(format!("{outdir}/cases.jsonl")).unwrap());
            let mut cases = std::io::BufWriter::new(std::fs::File::create(format!("{outdir}/cases.txt")).unwrap());
            let mut inputs = std::io::BufWriter::new(std::fs::File::create(format!("{outdir}/inputs.txt")).unwrap());
            let mut opsf = std::io::BufWriter::new(std::fs::File::create(format!("{outdir}/ops.txt")).unwrap());
            let mut opsin = std::io::BufWriter::new(std::fs::File::create(format!("{outdir}/ops_inputs.txt")).unwrap());
            for i in 0..n {
                let c = gen_case(&mut r, i);
                { let (line, what) = ops_case(&c, &mut r); writeln!(opsf, "{line}").unwrap(); writeln!(opsin, "{what}").unwrap(); rep.count("tie.call_sequences"); if line.ends_with("None)") { rep.count("tie.call_sequences.duplicate_name_panics"); } }
                let names: Vec<String> = c.decls.iter().map(|d| d.name.clone()).collect();
                let text = text_of(&c);
                writeln!(jf, "{}", json!({"case": c, "text": text})).unwrap();
                let (mb, vars) = build(&c);
                let model: Model = mb.clone().into_model();
                // ---- Coq tie: every expression of the case: builder tree, into_model's tree, eval points through BuilderSolution::eval
                let mut exprs: Vec<(BT, Option<Exp>)> = Vec::new();
                if c.dir < 2 { exprs.push((c.obj.clone(), Some(model.objective().rhs.clone()))); }
                for (k, mc) in c.cons.iter().zip(model.constraints()) { exprs.push((k.lhs.clone(), Some(mc.lhs().clone()))); if !k.assertion { exprs.push((k.rhs.clone(), Some(mc.rhs().clone()))); } }
                for e in &c.extra { exprs.push((e.clone(), None)); }
                // a trivially solvable carrier model with the same variables, solved by a solver that returns a fixed assignment
                let mut carrier = ModelBuilder::new();
                for d in &c.decls { carrier.add_var(d.name.clone(), VariableType::Real(f64::NEG_INFINITY, f64::INFINITY)); }
                let pts: Vec<Vec<f64>> = (0..3).map(|_| c.decls.iter().map(|d| match d.kind { 0 => r.below(2) as f64, 1 => r.range(d.l() as i64, d.h() as i64) as f64, _ => *r.pick(&[0.0, 1.0, -1.0, 0.5, 2.0, -2.5, 3.0, 0.25]) }).collect()).collect();
                let sols: Vec<_> = pts.iter().map(|p| carrier.clone().satisfy().solve_with(Fixed { values: names.iter().cloned().zip(p.iter().cloned()).collect() })).collect();
                for (bt, me) in exprs.iter() {
                    let be = to_builder(bt, &vars);
                    let evals: Vec<String> = pts.iter().zip(&sols).map(|(p, s)| match s { Ok(s) => format!("([{}], {})", p.iter().map(|v| cq::xq(*v)).collect::<Vec<_>>().join("; "), cq::xq(s.eval(&be))), Err(_) => "([], NaN)".to_string() }).collect();
                    let line = format!("(mkC16 [{}] {} {} [{}])", names.iter().map(|x| format!("\"{}\"", x)).collect::<Vec<_>>().join("; "), to_coq(bt), match me { Some(e) => format!("(Some {})", cq::exp(e)), None => "None".into() }, evals.join("; "));
                    if rep.distinct_hash_new(&line) { writeln!(cases, "{line}").unwrap(); writeln!(inputs, "{}", to_text(bt, &names, false)).unwrap(); rep.count("tie.expressions"); }
                }
                // ---- front doors at compile level
                let a = mb.clone().linearize();
                let p = RoocParser::new(text.clone());
                let tc = p.type_check(&vec![], &IndexMap::new());
                let bmodel = p.parse_and_transform(vec![], &IndexMap::new());
                let fns = IndexMap::new();
                let ctx = PipeContext::new(vec![], &fns);
                let runner = PipeRunner::new(vec![Box::new(CompilerPipe::new()), Box::new(PreModelPipe::new()), Box::new(ModelPipe::new()), Box::new(LinearModelPipe::new())]);
                let piped = runner.run(PipeableData::String(text.clone()), &ctx);
                let unused: Vec<String> = used_in(&c).iter().zip(&names).filter(|(u, _)| !**u).map(|(_, n)| n.clone()).collect();
                if !unused.is_empty() { rep.count("nontrivial.has_unused_declared_variable"); }
                match (&a, &bmodel) {
                    (Ok(la), Ok(mt)) => {
                        rep.count("compiled.both");
                        if tc.is_err() { rep.count("text.ill_typed_but_transforms"); }
                        match Linearizer::linearize(mt.clone()) {
                            Ok(lb) => {
                                // the builder keeps declared-but-unused variables, the text front end drops them: compare the rest row for row
                                let mut la2 = la.clone(); let _ = &mut la2;
                                if let Err(why) = same_linear_shared(la, &lb, &unused) { rep.fail(json!({"prop":"C16","kind":"builder-and-text-compile-differently","class":"unclassified","text":text,"difference":why,"builder_linear":la.to_string(),"text_linear":lb.to_string()})); } else { rep.count("compiled.same_rows"); }
                                match &piped { Ok(stages) => match stages.last() { Some(PipeableData::LinearModel(lc)) => { if lc.to_string() != lb.to_string() { rep.fail(json!({"prop":"C16","kind":"pipes-and-direct-calls-compile-differently","class":"unclassified","text":text,"pipe_linear":lc.to_string(),"text_linear":lb.to_string()})); } else { rep.count("compiled.pipe_same"); } } _ => rep.fail(json!({"prop":"C16","kind":"pipe-last-stage-not-linear","class":"unclassified","text":text})) },
                                    Err((e, _)) => { if tc.is_ok() { rep.fail(json!({"prop":"C16","kind":"pipe-fails-where-direct-calls-succeed","class":"unclassified","text":text,"error":format!("{}", e).chars().take(200).collect::<String>()})); } else { rep.count("pipe.rejected_ill_typed_text"); } } }
                                // all declared builder variables survive, inside their declared domain kind
                                for (d, nm) in c.decls.iter().zip(&names) { if !la.variables().contains(nm) { rep.fail(json!({"prop":"C16","kind":"declared-builder-variable-missing","class":"unclassified","text":text,"variable":nm,"kind_of_variable":d.kind})); } }
                            }
                            Err(e) => rep.fail(json!({"prop":"C16","kind":"builder-linearizes-text-does-not","class":"unclassified","text":text,"error":e.to_string()})),
                        }
                    }
                    (Err(ea), Ok(mt)) => { match Linearizer::linearize(mt.clone()) { Ok(_) => rep.fail(json!({"prop":"C16","kind":"text-linearizes-builder-does-not","class":"unclassified","text":text,"error":ea.to_string()})), Err(eb) => { rep.count("compiled.neither"); if std::mem::discriminant(ea) != std::mem::discriminant(&eb) { rep.fail(json!({"prop":"C16","kind":"different-linearization-errors","class":"unclassified","text":text,"builder":ea.to_string(),"text_error":eb.to_string()})); } } } }
                    (_, Err(e)) => { rep.count("text.does_not_transform"); if i % 50 == 0 { rep.sample(json!({"untransformable_text": text, "error": e.chars().take(200).collect::<String>()}), 20); } }
                }
                if i % 211 == 0 { rep.sample(json!({"text": text, "order": c.order}), 8); }
            }
            // the declarative macros and add_vars families against the text that says the same
            for (what, mb, text) in macro_corpus() {
                rep.count("macro_cases");
                let a = mb.clone().linearize();
                let bt = RoocParser::new(text.clone()).parse_and_transform(vec![], &IndexMap::new()).map_err(|e| e.chars().take(200).collect::<String>()).and_then(|m| Linearizer::linearize(m).map_err(|e| e.to_string()));
                match (&a, &bt) {
                    (Ok(la), Ok(lb)) => { if let Err(why) = same_linear_shared(la, lb, &[]) { rep.fail(json!({"prop":"C16","kind":"macro-built-model-and-text-compile-differently","class":"unclassified","what":what,"text":text,"difference":why,"builder_linear":la.to_string(),"text_linear":lb.to_string()})); } }
                    (x, y) => rep.fail(json!({"prop":"C16","kind":"macro-built-model-and-text-compile-differently","class":"unclassified","what":what,"text":text,"difference":format!("builder: {:?} ; text: {:?}", x.as_ref().map(|_| "compiles").map_err(|e| e.to_string()), y.as_ref().map(|_| "compiles"))})),
                }
            }
            // data through the API: the same program compiled (a) by parse_and_transform with constants, (b) by the staged pipes with
            // the same constants in the PipeContext, (c) with the data written in a where block - three times the same linear model
            for i in 0..(n / 10).max(8) {
                let k = 2 + r.below(4);
                let w: Vec<i64> = (0..k).map(|_| r.range(1, 60)).collect(); let v: Vec<i64> = (0..k).map(|_| r.range(1, 40)).collect(); let cap = r.range(10, 120);
                let head = "max sum((value, i) in enumerate(values)) { value * x_i }\ns.t.\n    sum((weight, i) in enumerate(weights)) { weight * x_i } <= capacity\n    x_0 + x_1 >= shift";
                let tail = "define\n    x_i as Boolean for i in 0..len(weights)";
                let shift = r.range(0, 1);
                let src = format!("{head}\n{tail}");
                let src_data = format!("{head}\nwhere\n    let weights = {:?}\n    let values = {:?}\n    let capacity = {}\n    let shift = {}\n{tail}", w, v, cap, shift);
                let consts = || vec![rooc::Constant::from_primitive("weights", rooc::IterableKind::Integers(w.clone()).into_primitive()), rooc::Constant::from_primitive("values", rooc::IterableKind::Integers(v.clone()).into_primitive()),
                    rooc::Constant::from_primitive("capacity", rooc::Primitive::Integer(cap)), rooc::Constant::from_primitive("shift", rooc::Primitive::Integer(shift))];
                let fns = IndexMap::new();
                let a = RoocParser::new(src.clone()).parse_and_transform(consts(), &fns).map_err(|e| e.chars().take(160).collect::<String>()).and_then(|m| Linearizer::linearize(m).map_err(|e| e.to_string())).map(|l| l.to_string());
                let runner = PipeRunner::new(vec![Box::new(CompilerPipe::new()), Box::new(PreModelPipe::new()), Box::new(ModelPipe::new()), Box::new(LinearModelPipe::new())]);
                let bpipe = match runner.run(PipeableData::String(src.clone()), &PipeContext::new(consts(), &fns)) { Ok(st) => match st.last() { Some(PipeableData::LinearModel(l)) => Ok(l.to_string()), _ => Err("last stage is not a linear model".to_string()) }, Err((e, _)) => Err(format!("{}", e).chars().take(160).collect::<String>()) };
                let c = RoocParser::new(src_data.clone()).parse_and_transform(vec![], &fns).map_err(|e| e.chars().take(160).collect::<String>()).and_then(|m| Linearizer::linearize(m).map_err(|e| e.to_string())).map(|l| l.to_string());
                rep.count("api_data_cases");
                {   // the same with a user-defined function in the source: direct call and pipes get the same function map; the third spelling doubles the data
                    let mut ufns: rooc::FunctionContextMap = IndexMap::new(); ufns.insert("doubler".to_string(), Box::new(Doubler {}));
                    let srcf = src.replace("enumerate(values)", "enumerate(doubler(values))");
                    let v2: Vec<i64> = v.iter().map(|x| 2 * x).collect();
                    let src_data2 = format!("{head}\nwhere\n    let weights = {:?}\n    let values = {:?}\n    let capacity = {}\n    let shift = {}\n{tail}", w, v2, cap, shift);
                    let fa = RoocParser::new(srcf.clone()).parse_and_transform(consts(), &ufns).map_err(|e| e.chars().take(160).collect::<String>()).and_then(|m| Linearizer::linearize(m).map_err(|e| e.to_string())).map(|l| l.to_string());
                    let frunner = PipeRunner::new(vec![Box::new(CompilerPipe::new()), Box::new(PreModelPipe::new()), Box::new(ModelPipe::new()), Box::new(LinearModelPipe::new())]);
                    let fb = match frunner.run(PipeableData::String(srcf.clone()), &PipeContext::new(consts(), &ufns)) { Ok(st) => match st.last() { Some(PipeableData::LinearModel(l)) => Ok(l.to_string()), _ => Err("last stage is not a linear model".to_string()) }, Err((e, _)) => Err(format!("{}", e).chars().take(160).collect::<String>()) };
                    let fc = RoocParser::new(src_data2.clone()).parse_and_transform(vec![], &fns).map_err(|e| e.chars().take(160).collect::<String>()).and_then(|m| Linearizer::linearize(m).map_err(|e| e.to_string())).map(|l| l.to_string());
                    rep.count("api_function_cases");
                    if fa != fc { rep.fail(json!({"prop":"C16","kind":"user-function-through-the-api-compiles-differently-from-the-data-it-computes","class":"unclassified","text":srcf,"api":format!("{:?}", fa),"text_result":format!("{:?}", fc)})); }
                    if fb != fa { rep.fail(json!({"prop":"C16","kind":"pipes-and-direct-calls-disagree-on-a-user-function","class":"unclassified","text":srcf,"pipes":format!("{:?}", fb),"direct":format!("{:?}", fa)})); }
                }
                if a != c { rep.fail(json!({"prop":"C16","kind":"data-through-the-api-compiles-differently-from-data-in-the-text","class":"unclassified","text":src_data,"api":format!("{:?}", a),"text_result":format!("{:?}", c)})); }
                if bpipe != a { rep.fail(json!({"prop":"C16","kind":"pipes-and-direct-calls-disagree-on-api-data","class":"unclassified","text":src_data,"pipes":format!("{:?}", bpipe),"direct":format!("{:?}", a)})); }
                let _ = i;
            }
            // text-only cases: ill-typed pieces that are never evaluated (iteration over an empty range): every text entry point
            // must give the same verdict (the type checker's)
            let probes = ["    zq <= 1 for i in 0..0", "    sum(i in 0..0) { \"a\" * 2 } <= 1", "    nope(1) <= 1 for i in 0..0", "    sum((a, b2) in 0..0) { a } <= 1", "    1 <= 2 for i in 0..0"];
            for i in 0..(n / 5).max(probes.len()) {
                let c = gen_case(&mut r, i);
                let text = text_of(&c);
                let probe = probes[i % probes.len()];
                let text = text.replacen("\ndefine\n", &format!("\n{}\ndefine\n", probe), 1);
                writeln!(jf, "{}", json!({"case": serde_json::Value::Null, "text": text})).unwrap();
                rep.count("text_only_cases");
            }
            rep.add("cases", n as u64);
            rep.write(&format!("{outdir}/report.json"));
        }
        "worker" => {
            let start_i: usize = args[3].parse().unwrap();
            let start_k: usize = args.get(4).and_then(|x| x.parse().ok()).unwrap_or(0);
            let file = std::io::BufReader::new(std::fs::File::open(&args[2]).unwrap());
            let out = std::io::stdout();
            for (i, line) in file.lines().enumerate() {
                if i < start_i { continue; }
                let v: Value = serde_json::from_str(&line.unwrap()).unwrap();
                let text = v["text"].as_str().unwrap().to_string();
                let text_only = v["case"].is_null();
                let c: Case = if text_only { Case { decls: vec![], cons: vec![], dir: 2, obj: BT::Num(0.0), order: 0, extra: vec![] } } else { serde_json::from_value(v["case"].clone()).unwrap() };
                for k in 0..4 {
                    if i == start_i && k < start_k { continue; }
                    if text_only && k == 3 { let mut o = out.lock(); writeln!(o, "R {} 3 {}", i, json!({"status":"n/a"})).unwrap(); o.flush().unwrap(); continue; }
                    if text_only && k == 0 { let mut o = out.lock(); writeln!(o, "R {} 0 {}", i, json!({"status":"n/a"})).unwrap(); o.flush().unwrap(); continue; }
                    { let mut o = out.lock(); writeln!(o, "S {} {}", i, k).unwrap(); o.flush().unwrap(); }
                    let res = std::panic::catch_unwind(|| match k {
                        0 | 3 => { let (mb, vars) = build_with(&c, k == 3);
                            match mb.solve_with(rooc::Auto) {
                                Ok(s) => { let names: Vec<String> = c.decls.iter().map(|d| d.name.clone()).collect();
                                    let by_handle: Vec<Value> = vars.iter().map(|h| json!(s.numeric_value(*h))).collect();
                                    let by_name: Vec<Value> = names.iter().map(|n| json!(rooc::Solution::var_value(s.solution(), n).map(|x| { let f: f64 = x.into(); f }))).collect();
                                    let ev = if c.dir < 2 { Some(s.eval(&to_builder(&c.obj, &vars))) } else { None };
                                    let evs: Vec<Value> = c.cons.iter().map(|kc| json!([s.eval(&to_builder(&kc.lhs, &vars)), s.eval(&to_builder(&kc.rhs, &vars))])).collect();
                                    json!({"status":"ok","value":s.value(),"by_handle":by_handle,"by_name":by_name,"eval_objective":ev,"eval_constraints":evs}) }
                                Err(rooc::BuilderError::Solver(e)) => json!({"status":"solver-error","kind": match e { rooc::SolverError::Infeasible => "Infeasible", rooc::SolverError::Unbounded => "Unbounded", _ => "Other" }}),
                                Err(rooc::BuilderError::Linearization(e)) => json!({"status":"compile-error","message":e.to_string()}),
                            } }
                        1 => match rooc::RoocSolver::try_new(text.clone()) {
                            Err(_) => json!({"status":"compile-error","message":"parse"}),
                            Ok(s) => match s.solve_using(rooc::auto_solver) {
                                Ok(sol) => { let assign: IndexMap<String, f64> = sol.assignment().iter().map(|a| (a.name.clone(), a.value.into())).collect(); json!({"status":"ok","value":sol.value(),"assign":assign}) }
                                Err(rooc::RoocSolverError::Solver(e)) => json!({"status":"solver-error","kind": match e { rooc::SolverError::Infeasible => "Infeasible", rooc::SolverError::Unbounded => "Unbounded", _ => "Other" }}),
                                Err(e) => json!({"status":"compile-error","message":format!("{}", e).chars().take(200).collect::<String>()}),
                            } },
                        _ => { let fns = IndexMap::new(); let ctx = PipeContext::new(vec![], &fns);
                            let runner = PipeRunner::new(vec![Box::new(CompilerPipe::new()), Box::new(PreModelPipe::new()), Box::new(ModelPipe::new()), Box::new(LinearModelPipe::new()), Box::new(AutoSolverPipe::new())]);
                            match runner.run(PipeableData::String(text.clone()), &ctx) {
                                Ok(stages) => match stages.last() { Some(PipeableData::MILPSolution(sol)) => { let assign: IndexMap<String, f64> = sol.assignment().iter().map(|a| (a.name.clone(), a.value.into())).collect(); json!({"status":"ok","value":sol.value(),"assign":assign}) } _ => json!({"status":"other"}) },
                                Err((e, _)) => match e {
                                    rooc::pipe::PipeError::SolverError(se) => json!({"status":"solver-error","kind": match se { rooc::SolverError::Infeasible => "Infeasible", rooc::SolverError::Unbounded => "Unbounded", _ => "Other" }}),
                                    other => json!({"status":"compile-error","message":format!("{}", other).chars().take(200).collect::<String>()}),
                                },
                            } }
                    }).unwrap_or_else(|_| json!({"status":"panic"}));
                    let mut o = out.lock(); writeln!(o, "R {} {} {}", i, k, res).unwrap(); o.flush().unwrap();
                }
            }
            println!("DONE");
        }
        _ => panic!("unknown mode"),
    }
}

/// row-for-row equality where the builder side may carry extra declared-but-unused variables (all-zero columns)
fn same_linear_shared(a: &LinearModel, c: &LinearModel, builder_only: &[String]) -> Result<(), String> {
    for v in a.variables() { if !c.variables().contains(v) && !builder_only.contains(v) { return Err(format!("variable `{}` only in the builder's model", v)); } }
    for v in c.variables() { if !a.variables().contains(v) { return Err(format!("variable `{}` only in the text's model", v)); } }
    same_linear(a, c, builder_only)
}
#[allow(dead_code)]
fn unused_helpers(_: &Exp) { let _ = b; }
