//! C18 harness: the compiler is total.
//!  gen:    writes inputs.jsonl: repository programs, mutated programs (token deletion / duplication / swap, numeric
//!          extremes, deep nesting, huge ranges, deep indexes), grammar-derived programs, raw noise (<= 4 KiB)
//!  worker: runs every public stage on each input under catch_unwind and reports per stage: ok / error (+ whether the
//!          error renders against the source) / panic; the Python driver adds the watchdog (hang, abort)
use harness::rng::Rng;
use indexmap::IndexMap;
use rooc::{Linearizer, RoocParser};
use serde_json::{json, Value};
use std::io::{BufRead, Write};

const EXTREMES: &[&str] = &["9223372036854775807", "9223372036854775808", "18446744073709551615", "18446744073709551616", "99999999999999999999999999999999", "0.000000000000000000000000000001", "179769313486231570000000000000000000000000000000000000000000000000000000000000000000000000000000000000000000000000000000000000000000000000000000000000000000000000000000000000000000000000000000000000000000000000000000000000000000000000000000000000000000000000000000000000000000000000000000000000000000000000000000.0", "0", "00", "1.", ".5", "1e9", "-0", "4294967296", "2147483648", "1000000000000"];
const TOKENS: &[&str] = &["min", "max", "solve", "s.t.", "where", "define", "let", "for", "in", "as", "sum", "prod", "abs", "{", "}", "(", ")", "[", "]", ",", ":", "_", "\\", "$", "..", "..=", "<=", ">=", "=", "<", ">", "+", "-", "*", "/", "and", "or", "not", "xor", "implies", "iff", "->", "<->", "!", "&&", "||", "true", "false", "\"", "Graph", "Real", "Boolean", "IntegerRange", "Infinity", "\n", "\n\n", " ", "\t", "//", "/*", "*/", "x", "x_i", "x_{i}", "i"];

fn tokens(s: &str) -> Vec<String> {
    let mut out = Vec::new(); let mut cur = String::new();
    for c in s.chars() {
        if c.is_alphanumeric() || c == '_' || c == '.' { cur.push(c); } else { if !cur.is_empty() { out.push(std::mem::take(&mut cur)); } out.push(c.to_string()); }
    }
    if !cur.is_empty() { out.push(cur); }
    out
}
fn mutate(r: &mut Rng, src: &str) -> String {
    let mut t = tokens(src);
    if t.is_empty() { return src.to_string(); }
    for _ in 0..1 + r.below(3) {
        let i = r.below(t.len());
        match r.below(9) {
            0 => { t.remove(i); }
            1 => { let x = t[i].clone(); t.insert(i, x); }
            2 => { let j = r.below(t.len()); t.swap(i, j); }
            3 => { if let Some(k) = (0..t.len()).map(|d| (i + d) % t.len()).find(|k| t[*k].chars().next().map(|c| c.is_ascii_digit()).unwrap_or(false)) { t[k] = r.pick(EXTREMES).to_string(); } }
            4 => { t.insert(i, r.pick(TOKENS).to_string()); }
            5 => { t[i] = r.pick(TOKENS).to_string(); }
            6 => { let d = 1 + r.below(64); t.insert(i, "(".repeat(d)); let j = (i + 2 + r.below(4)).min(t.len()); t.insert(j, ")".repeat(d)); }
            7 => { t.insert(i, format!("A{}", "[0]".repeat(1 + r.below(40)))); }
            _ => { t.insert(i, format!("x{}", "_1".repeat(1 + r.below(60)))); }
        }
        if t.is_empty() { break; }
    }
    let s: String = t.concat();
    s.chars().take(4096).collect()
}
fn noise(r: &mut Rng) -> String {
    let n = r.below(400);
    match r.below(3) {
        0 => (0..n).map(|_| char::from_u32(32 + r.below(95) as u32).unwrap()).collect(),
        1 => (0..n).map(|_| *r.pick(&['é', 'ß', '∀', '→', '𝔸', '\u{0}', '\u{7f}', '\u{feff}', 'x', ' ', '\n', '(', '{', '"'])).collect(),
        _ => (0..n.min(200)).map(|_| r.pick(TOKENS).to_string()).collect::<Vec<_>>().join(if r.chance(1, 2) { " " } else { "" }),
    }
}
fn grammar(r: &mut Rng) -> String {
    fn e(r: &mut Rng, d: usize) -> String {
        if d == 0 || r.chance(1, 3) { return r.pick(&["x", "y", "x_1", "x_i", "2", "0.5", "A[0]", "A[i]", "len(A)", "n", "true", "\"s\"", "x_{i + 1}", "M[0][1]", "-3", "(x)", "A[len(A)]", "A[3]", "A[n]", "M[1][1]", "M[0][2]", "M[2]", "A[len(A) - 1]", "A[-1]"]).to_string(); }
        match r.below(12) {
            0 => format!("{} + {}", e(r, d - 1), e(r, d - 1)), 1 => format!("{} - {}", e(r, d - 1), e(r, d - 1)), 2 => format!("{} * {}", e(r, d - 1), e(r, d - 1)), 3 => format!("{} / {}", e(r, d - 1), e(r, d - 1)),
            4 => format!("({})", e(r, d - 1)), 5 => format!("-{}", e(r, d - 1)), 6 => format!("abs {{ {} }}", e(r, d - 1)), 7 => format!("min {{ {}, {} }}", e(r, d - 1), e(r, d - 1)),
            8 => format!("sum(i in {}) {{ {} }}", r.pick(&["A", "0..n", "0..=len(A)", "M", "enumerate(A)", "nodes(G)", "n", "0..0", "3..1"]), e(r, d - 1)),
            9 => format!("{} and {}", e(r, d - 1), e(r, d - 1)), 10 => format!("not {}", e(r, d - 1)), _ => format!("{}({})", r.pick(&["len", "enumerate", "edges", "range", "zip", "nope"]), e(r, d - 1)),
        }
    }
    let depth = 1 + r.below(5);
    let cons: Vec<String> = (0..1 + r.below(5)).map(|_| format!("    {}{} {} {}{}", match r.below(4) { 0 => "c_i: ", 1 => "c: ", _ => "" }, e(r, depth), r.pick(&["<=", ">=", "=", "<", ">"]), e(r, 1), if r.chance(1, 3) { " for i in 0..n" } else { "" })).collect();
    format!("{} {}\ns.t.\n{}\nwhere\n    let n = {}\n    let A = [1, 2, 3]\n    let M = [[1, 2], [3]]\n    let G = Graph {{ A -> [B], B }}\ndefine\n    x, y as {}\n    x_i as Real for i in 0..{}", r.pick(&["min", "max"]), e(r, depth), cons.join("\n"), r.pick(&["3", "0", "2.5", "-1", "9223372036854775807"]), r.pick(&["Real", "Boolean", "IntegerRange(0, 3)", "NonNegativeReal", "Real(0, Infinity)", "IntegerRange(-2147483648, 2147483647)", "IntegerRange(0, 99999999999)"]), r.pick(&["5", "n", "len(A) + 2"]))
}

fn stage<T>(name: &str, out: &mut serde_json::Map<String, Value>, f: impl FnOnce() -> Result<T, String> + std::panic::UnwindSafe) -> Option<T> {
    match std::panic::catch_unwind(f) {
        Ok(Ok(v)) => { out.insert(name.into(), json!("ok")); Some(v) }
        Ok(Err(e)) => { out.insert(name.into(), json!(format!("error: {}", e.chars().take(120).collect::<String>()))); None }
        Err(p) => { let msg = p.downcast_ref::<String>().cloned().or_else(|| p.downcast_ref::<&str>().map(|s| s.to_string())).unwrap_or_default(); out.insert(name.into(), json!(format!("PANIC: {}", msg.chars().take(200).collect::<String>()))); None }
    }
}

fn main() {
    let args: Vec<String> = std::env::args().collect();
    match args[1].as_str() {
        "gen" => {
            let seed: u64 = args[2].parse().unwrap(); let n: usize = args[3].parse().unwrap();
            let mut r = Rng::new(seed ^ 0xC18);
            let corpus: Vec<String> = std::fs::read_to_string(&args[5]).unwrap_or_default().lines().filter_map(|l| serde_json::from_str::<String>(l).ok()).collect();
            let mut f = std::io::BufWriter::new(std::fs::File::create(&args[4]).unwrap());
            let mut put = |s: String, k: &str| { writeln!(f, "{}", json!({"text": s, "stream": k})).unwrap(); };
            for c in &corpus { put(c.clone(), "corpus"); }
            // fixed adversarial inputs
            for s in ["", " ", "\n", "min", "min 1", "min 1\ns.t.", "min 1\ns.t.\n", "solve\ns.t.\n", "min x\ns.t.\n x >= sum(i in 0..1000000000000) { 1 }\ndefine\n x as Real", "min x\ns.t.\n x >= k\nwhere\n let k = -(-9223372036854775807 - 1)\ndefine\n x as Real",
                "min x\ns.t.\n x >= k\nwhere\n let k = 9223372036854775807 + 1\ndefine\n x as Real", "min x\ns.t.\n x >= k\nwhere\n let k = 9223372036854775807 * 9223372036854775807\ndefine\n x as Real", "min x\ns.t.\n x >= 1 / 0\ndefine\n x as Real", "min x\ns.t.\n x >= A[18446744073709551615]\nwhere\n let A = [1]\ndefine\n x as Real",
                "min x\ns.t.\n x >= avg {}\ndefine\n x as Real", "min x\ns.t.\n x >= min {}\ndefine\n x as Real", "min x\ns.t.\n x >= avg(i in 0..0) { i }\ndefine\n x as Real", "min x\ns.t.\n x >= max(i in 0..0) { i }\ndefine\n x as Real",
                "min x\ns.t.\n x >= 1\ndefine\n x as IntegerRange(-99999999999, 99999999999)", "min x\ns.t.\n x >= 1\ndefine\n x as IntegerRange(3, 1)", "min x\ns.t.\n x >= 1\ndefine\n x as Real(5, 1)", "min x\ns.t.\n x >= 1e400\ndefine\n x as Real", "min \"s\"\ns.t.\n 1 >= 0", "min x\ns.t.\n x_{\"a b\"} >= 1\ndefine\n x as Real"] { put(s.to_string(), "fixed"); }
            put(format!("min {}x{}\ns.t.\n x >= 1\ndefine\n x as Real", "(".repeat(64), ")".repeat(64)), "fixed");
            // integer arithmetic at the limits of the representation: every operator, both operand orders
            let lim = ["9223372036854775807", "-9223372036854775807", "(-9223372036854775807 - 1)", "4611686018427387904", "-4611686018427387905", "2147483648", "2", "-2", "1", "-1", "0"];
            for a in lim { for b in lim { for op in ["+", "-", "*", "/"] { put(format!("min x\ns.t.\n x >= k\nwhere\n let k = {} {} {}\ndefine\n x as Real", a, op, b), "limits"); } } }
            for a in lim { put(format!("min x\ns.t.\n x_{{{}}} >= 1\ndefine\n x_i as Real for i in {}..{}", a, a, a), "limits"); put(format!("min x\ns.t.\n x >= sum(i in {}..={}) {{ i }}\ndefine\n x as Real", a, a), "limits"); }
            // literal indexes beyond every integer type, identifiers that begin with a multi-byte letter, destructuring patterns wider
            // than the data (accepted by the type checker for arrays of rows: the transformer must answer with an error)
            for ix in ["99999999999999999999", "18446744073709551616", "9223372036854775808", "-9223372036854775809", "340282366920938463463374607431768211456"] {
                put(format!("min x_{ix}\ns.t.\n x_{ix} >= 1\ndefine\n x_{ix} as Real"), "limits"); put(format!("min x\ns.t.\n x >= 1\n c_{ix}: x <= 2\ndefine\n x as Real"), "limits"); }
            for nm in ["\u{e9}", "_\u{e9}", "\u{f1}x", "x\u{e9}", "\u{3b1}", "\u{3b1}_1", "\\\u{e9}_1", "\u{4e2d}\u{6587}"] {
                put(format!("min {nm}\ns.t.\n {nm} >= 1\n lim: {nm} <= 4\ndefine\n {nm} as Real"), "limits"); put(format!("min x\ns.t.\n {nm}: x >= 1\nwhere\n let {nm}k = 2\ndefine\n x as Real"), "limits"); }
            for pat in ["(a, b, c)", "(a, b, c, d)", "(a)", "(a, b)"] { for src in ["rows", "enumerate(rows)", "edges(G)", "zip(rows, rows)", "rows[0]"] {
                put(format!("min x\ns.t.\n x >= sum({pat} in {src}) {{ 1 }}\nwhere\n let rows = [[1, 2], [3, 4]]\n let G = Graph {{ A -> [B: 2], B }}\ndefine\n x as Real"), "limits");
                put(format!("min x\ns.t.\n x >= 1 for {pat} in {src}\nwhere\n let rows = [[1, 2], [3, 4]]\n let G = Graph {{ A -> [B: 2], B }}\ndefine\n x as Real"), "limits"); } }
            // zip over arrays of different lengths (either one longer, three arrays), in a sum and on a constraint
            for (a, b) in [("A", "B"), ("B", "A"), ("A", "E"), ("E", "A"), ("E", "E")] {
                put(format!("min x\ns.t.\n x >= sum((p, q) in zip({a}, {b})) {{ p * q }}\nwhere\n let A = [1, 2, 3]\n let B = [10, 20]\n let E = [4][1..1]\ndefine\n x as Real"), "limits");
                put(format!("min x\ns.t.\n x >= sum((p, q) in zip({a}, {b})) {{ p * q }}\nwhere\n let A = [1, 2, 3]\n let B = [10, 20]\ndefine\n x as Real"), "limits");
                put(format!("min x\ns.t.\n x >= p + q for (p, q) in zip({a}, {b})\nwhere\n let A = [1, 2, 3]\n let B = [10, 20]\ndefine\n x as Real"), "limits"); }
            put("min x\ns.t.\n x >= sum((p, q, w) in zip(A, B, C)) { p * q * w }\nwhere\n let A = [1, 2, 3]\n let B = [10, 20]\n let C = [5, 6, 7, 8]\ndefine\n x as Real".to_string(), "limits");
            put("min x\ns.t.\n x >= sum((p, q, w) in zip(C, A, B)) { p * q * w }\nwhere\n let A = [1, 2, 3]\n let B = [10, 20]\n let C = [5, 6, 7, 8]\ndefine\n x as Real".to_string(), "limits");
            // bounds that chase each other without end: the analysis must stop at its step limit
            for (tx, ty) in [("NonNegativeReal", "NonNegativeReal"), ("Real(0, 1e30)", "NonNegativeReal"), ("NonNegativeReal", "Real(-5, 1e300)")] {
                put(format!("min x + y\ns.t.\n x >= y + 1\n y >= x + 1\ndefine\n x as {tx}\n y as {ty}"), "limits");
                put(format!("max x\ns.t.\n x >= 2 * y + 1\n y >= 0.5 * x + 0.25\n x + y >= 3\ndefine\n x as {tx}\n y as {ty}"), "limits"); }
            // equality-constrained LPs with fewer unit columns than rows (the tableau needs its two-phase start)
            put("min a + b - c + 2 * d\ns.t.\n a + b + c - d = 4\n c - d = 0\ndefine\n a, b, c, d as NonNegativeReal(0, 100)".to_string(), "limits");
            put("max a + b\ns.t.\n a + b + c = 6\n a - b = 1\n b + c = 3\ndefine\n a, b, c as NonNegativeReal(0, 50)".to_string(), "limits");
            put("min a\ns.t.\n a + b = 2\n a + b = 3\ndefine\n a, b as NonNegativeReal(0, 9)".to_string(), "limits");
            put("min a + b - c + 2 * d\ns.t.\n a + b + c - d = 4\n c - d = 0\ndefine\n a, b, c, d as NonNegativeReal".to_string(), "limits");
            put("max a + b\ns.t.\n a + b + c = 6\n a - b = 1\n b + c = 3\ndefine\n a, b, c as NonNegativeReal".to_string(), "limits");
            put("min a + 2 * b\ns.t.\n a + b = 2\n a - b = 0\n 2 * a + 2 * b = 4\ndefine\n a, b as NonNegativeReal".to_string(), "limits");
            // an error inside a long expression with multi-byte letters at every offset around the places where a renderer may cut
            for pad in 0..14 { for nm in ["quantit\u{e0}", "\u{e0}\u{e8}\u{ec}\u{f2}\u{f9}x", "\u{4e2d}\u{6587}\u{540d}"] {
                put(format!("min x\ns.t.\n sum(i in 0..len(prezzi)) {{ prezzi[i] * x_i + {}p[i] * {nm}_i }} <= 1\nwhere\n let prezzi = [1, 2]\ndefine\n x as Real\n x_i, {nm}_i as Real for i in 0..2", "1 * ".repeat(pad)), "limits");
                put(format!("min x\ns.t.\n x >= {}{nm}_0 + nope(3) + {nm}_1 * {nm}_0 - {nm}_1\ndefine\n x as Real\n {nm}_i as Real for i in 0..2", "1 + ".repeat(pad)), "limits"); } }
            // indexes at and around the length, names used more than once
            for ix in ["len(A)", "3", "2", "len(A) - 1", "len(A) + 1", "-1", "0 - 1", "len(A) * 2"] { put(format!("min x\ns.t.\n x >= A[{}]\n x >= M[1][{}]\nwhere\n let A = [4, 5, 6]\n let M = [[1], [2, 3, 4]]\ndefine\n x as Real", ix, ix), "limits"); }
            for k in 2..6 { let rows: Vec<String> = (0..k).map(|j| format!(" c: x >= {}", j)).collect(); put(format!("min x\ns.t.\n{}\ndefine\n x as Real", rows.join("\n")), "limits");
                let rows: Vec<String> = (0..k).map(|j| format!(" c_i: x_i >= {} for i in 0..2", j)).collect(); put(format!("min x_0\ns.t.\n{}\n c__2: x_0 >= 7\ndefine\n x_i as Real for i in 0..2", rows.join("\n")), "limits"); }
            put(format!("min {}x\ns.t.\n x >= 1\ndefine\n x as Real", "-(".repeat(64) + &")".repeat(0)), "fixed");
            put(format!("min x\ns.t.\n {} x >= 1\ndefine\n x as Real", "not ".repeat(64)), "fixed");
            // a product of a sum with 24 constant sums (flatten distributes every factor: finding F55)
            put(format!("min v\ns.t.\n v >= (x + 1){}\ndefine\n x as Real(0, 10)\n v as Real(0, 1000000000)", " * (1 + 1)".repeat(24)), "fixed");
            // min / max / abs blocks nested 40 deep over variables (nothing folds, nothing is pruned)
            for (outer, k) in [("v >=", 40usize), ("v <=", 40), ("v >=", 33)] {
                let mut e = "x".to_string();
                for i in 0..k { e = match i % 3 { 0 => format!("max {{ {}, {} + {} }}", e, ["y", "z", "w"][i % 3], i), 1 => format!("min {{ {}, {} + {} }}", e, ["y", "z", "w"][i % 3], i), _ => format!("abs {{ {} - {} }}", e, ["y", "z", "w"][i % 3]) }; }
                put(format!("min v\ns.t.\n {} {}\ndefine\n x, y, z, w as Real(0, 10)\n v as Real(0, 100000)", outer, e), "fixed"); }
            { let mut e = "x".to_string(); for i in 0..40 { e = if i % 2 == 0 { format!("max {{ {}, y + {} }}", e, i) } else { format!("min {{ {}, z + {} }}", e, i) }; }
              put(format!("min v\ns.t.\n v >= {}\ndefine\n x, y, z as Real(0, 10)\n v as Real(0, 100000)", e), "fixed"); }
            for i in 0..n {
                match i % 4 {
                    0 | 1 => { let base = if corpus.is_empty() { grammar(&mut r) } else { corpus[r.below(corpus.len())].clone() }; put(mutate(&mut r, &base), "mutated"); }
                    2 => put(grammar(&mut r), "grammar"),
                    _ => put(noise(&mut r), "noise"),
                }
            }
        }
        "worker" => {
            std::panic::set_hook(Box::new(|_| {}));
            let start_i: usize = args[3].parse().unwrap();
            let start_k: usize = args.get(4).and_then(|x| x.parse().ok()).unwrap_or(0);
            let file = std::io::BufReader::new(std::fs::File::open(&args[2]).unwrap());
            let out = std::io::stdout();
            for (i, line) in file.lines().enumerate() {
                if i < start_i { continue; }
                // restarted after the compile stages of this input hung or aborted: nothing to solve
                if i == start_i && start_k >= 1 { let mut o = out.lock(); writeln!(o, "R {} 1 {}", i, json!({"solve":"skipped"})).unwrap(); o.flush().unwrap(); continue; }
                let v: Value = serde_json::from_str(&line.unwrap()).unwrap();
                let src = v["text"].as_str().unwrap().to_string();
                { let mut o = out.lock(); writeln!(o, "S {} 0", i).unwrap(); o.flush().unwrap(); }
                let mut res = serde_json::Map::new();
                let p = RoocParser::new(src.clone());
                let s1 = src.clone();
                let parsed = stage("parse", &mut res, move || RoocParser::new(s1.clone()).parse().map_err(|e| { let r = std::panic::catch_unwind(|| e.to_string_from_source(&s1)); match r { Ok(m) => m, Err(_) => "PANIC while rendering the error".to_string() } }));
                if let Some(Value::String(m)) = res.get("parse") { if m.contains("PANIC while rendering") { res.insert("render".into(), json!("PANIC: rendering a CompilationError against its source")); } }
                if parsed.is_some() {
                    let p2 = p.clone(); let formatted = stage("format", &mut res, move || p2.format().map_err(|e| format!("{:?}", e)));
                    if let Some(f1) = formatted { stage("reparse_formatted", &mut res, move || RoocParser::new(f1).parse().map(|_| ()).map_err(|e| format!("{:?}", e).chars().take(100).collect())); }
                    let p3 = p.clone(); stage("type_check", &mut res, move || p3.type_check(&vec![], &IndexMap::new()));
                    let s2 = src.clone();
                    let model = stage("transform", &mut res, move || { let pm = RoocParser::new(s2.clone()).parse().map_err(|_| "parse".to_string())?; pm.transform(vec![], &IndexMap::new()).map_err(|e| { match std::panic::catch_unwind(|| e.trace_from_source(&s2).unwrap_or_else(|_| e.traced_error())) { Ok(m) => m, Err(_) => "PANIC while rendering the error".to_string() } }) });
                    if let Some(Value::String(m)) = res.get("transform") { if m.contains("PANIC while rendering") { res.insert("render".into(), json!("PANIC: rendering a TransformError against its source")); } }
                    if let Some(m) = model {
                        let m2 = m.clone(); stage("model_to_string", &mut res, move || Ok::<_, String>(m2.to_string().len()));
                        let lin = stage("linearize", &mut res, move || Linearizer::linearize(m).map_err(|e| e.to_string()));
                        if let Some(l) = lin {
                            let l2 = l.clone(); stage("linear_to_string", &mut res, move || Ok::<_, String>(l2.to_string().len() + l2.to_lp_format().len()));
                            let l3 = l.clone(); stage("standardize", &mut res, move || l3.into_standard_form().map(|s| { let _ = s.to_string(); }).map_err(|e| e.to_string()));
                            // solving only models in which every variable is bounded (free variables hang microlp: finding F18 of C05)
                            let bounded = l.domain().values().all(|d| match d.get_type() { rooc::VariableType::Real(a, b) | rooc::VariableType::NonNegativeReal(a, b) => a.is_finite() && b.is_finite(), _ => true }) && l.variables().len() <= 12;
                            res.insert("all_bounded".into(), json!(bounded));
                            // the tableau simplex (iteration limit) and Clarabel also get the models whose variables are only bounded below
                            let all_real = l.domain().values().all(|d| matches!(d.get_type(), rooc::VariableType::Real(_, _) | rooc::VariableType::NonNegativeReal(_, _)));
                            let lower_bounded = l.domain().values().all(|d| match d.get_type() { rooc::VariableType::Real(a, _) | rooc::VariableType::NonNegativeReal(a, _) => a.is_finite(), _ => true }) && l.variables().len() <= 12;
                            if bounded || (all_real && lower_bounded) { { let mut o = out.lock(); writeln!(o, "R {} 0 {}", i, Value::Object(res.clone())).unwrap(); writeln!(o, "S {} 1", i).unwrap(); o.flush().unwrap(); }
                                let mut r2 = serde_json::Map::new();
                                if all_real { let (l4, l5) = (l.clone(), l.clone());
                                    stage("solve_tableau_simplex", &mut r2, move || rooc::solve_real_lp_problem_slow_simplex(&l4, 2000).map(|s| { let _ = s.to_string(); }).map_err(|e| e.to_string()));
                                    stage("solve_clarabel", &mut r2, move || rooc::solve_real_lp_problem_clarabel(&l5).map(|s| { let _ = s.to_string(); }).map_err(|e| e.to_string())); }
                                if bounded { stage("solve", &mut r2, move || rooc::auto_solver(&l).map(|s| { let _ = s.to_string(); }).map_err(|e| e.to_string())); }
                                let mut o = out.lock(); writeln!(o, "R {} 1 {}", i, Value::Object(r2)).unwrap(); o.flush().unwrap(); continue; }
                        }
                    }
                }
                let mut o = out.lock(); writeln!(o, "R {} 0 {}", i, Value::Object(res)).unwrap(); writeln!(o, "R {} 1 {}", i, json!({"solve":"skipped"})).unwrap(); o.flush().unwrap();
            }
            println!("DONE");
        }
        _ => panic!("unknown mode"),
    }
}
