//! C19 harness: type checking is sound.
//!  (a) operator tables: PrimitiveKind::can_apply_*_op (static) and Primitive::apply_*_op (dynamic) on representative values of
//!      every kind, and the static result kind the checker assigns to `let r = a op b` - for the Coq tie
//!  (b) constant expressions: seeded trees over typed constants, checked and evaluated by the implementation - for the Coq tie
//!  (c) programs with deliberately perturbed types: accepted by type_check => transform never fails with a type-class error
use harness::{report::Report, rng::Rng};
use indexmap::IndexMap;
use rooc::model_transformer::TransformError;
use rooc::{ApplyOp, BinOp, Graph, GraphEdge, GraphNode, IterableKind, Primitive, PrimitiveKind, RoocParser, Tuple, UnOp};
use serde_json::json;
use std::io::Write;

const BOPS: &[(BinOp, &str, &str)] = &[(BinOp::Add, "Add", "+"), (BinOp::Sub, "Sub", "-"), (BinOp::Mul, "Mul", "*"), (BinOp::Div, "Div", "/"), (BinOp::And, "BAnd", "and"), (BinOp::Or, "BOr", "or"), (BinOp::Xor, "BXor", "xor"), (BinOp::Implies, "BImplies", "implies"), (BinOp::Iff, "BIff", "iff")];
const UOPS: &[(UnOp, &str)] = &[(UnOp::Neg, "Neg"), (UnOp::Not, "UNot")];

fn kind_coq(k: &PrimitiveKind) -> &'static str {
    match k { PrimitiveKind::Number => "KNumber", PrimitiveKind::Integer => "KInteger", PrimitiveKind::PositiveInteger => "KPosInt", PrimitiveKind::String => "KString", PrimitiveKind::Iterable(_) => "KIterable",
        PrimitiveKind::Graph => "KGraph", PrimitiveKind::GraphEdge => "KEdge", PrimitiveKind::GraphNode => "KNode", PrimitiveKind::Tuple(_) => "KTuple", PrimitiveKind::Boolean => "KBoolean", PrimitiveKind::Undefined => "KUndefined", PrimitiveKind::Any => "KAny" }
}
fn q(v: f64) -> String { harness::coqfmt::xq(v) }
fn val_coq(p: &Primitive) -> String {
    match p { Primitive::Number(v) => format!("(vnum {})", q(*v)), Primitive::Integer(z) => format!("(VInt ({})%Z)", z), Primitive::PositiveInteger(n) => format!("(VPos ({})%Z)", n), Primitive::String(s) => format!("(VStr \"{}\")", s),
        Primitive::Boolean(b) => format!("(VBool {})", b), Primitive::Undefined => "VUndef".into(), other => format!("(VOpaque {})", kind_coq(&other.get_type())) }
}
fn val_text(p: &Primitive) -> Option<String> {
    match p { Primitive::Number(v) => Some(if v.fract() == 0.0 { format!("{:.1}", v) } else { format!("{}", v) }), Primitive::Integer(z) => Some(format!("{}", z)), Primitive::PositiveInteger(_) => None, Primitive::String(s) => Some(format!("\"{}\"", s)),
        Primitive::Boolean(b) => Some(format!("{}", b)), Primitive::Iterable(_) => Some("[1, 2]".into()), Primitive::Graph(_) => Some("Graph { A -> [B], B }".into()), _ => None }
}
fn res_coq(r: &Result<Primitive, rooc::OperatorError>) -> String {
    match r { Ok(v) => format!("(inl {})", val_coq(v)),
        Err(e) => format!("(inr {})", match e { rooc::OperatorError::IncompatibleType { .. } => "EIncompatible", rooc::OperatorError::UnsupportedBinOperation { .. } | rooc::OperatorError::UnsupportedUnOperation { .. } => "EUnsupported", rooc::OperatorError::UndefinedUse => "EUndefinedUse", rooc::OperatorError::DivisionByZero => "EDivZero", rooc::OperatorError::Overflow { .. } => "EOverflow" }) }
}
fn values() -> Vec<Primitive> {
    let e = GraphEdge::new("A".into(), "B".into(), Some(2.0));
    let n = GraphNode::new("A".into(), vec![e.clone()]);
    vec![Primitive::Number(0.0), Primitive::Number(2.5), Primitive::Number(-1.0), Primitive::Number(3.0),
        Primitive::Integer(0), Primitive::Integer(7), Primitive::Integer(-3), Primitive::Integer(i64::MAX), Primitive::Integer(i64::MIN + 1), Primitive::Integer(1 << 40),
        Primitive::PositiveInteger(0), Primitive::PositiveInteger(5), Primitive::PositiveInteger(u64::MAX), Primitive::PositiveInteger(1 << 40), Primitive::PositiveInteger(i64::MAX as u64 + 10),
        Primitive::Boolean(true), Primitive::Boolean(false), Primitive::String("a".into()), Primitive::String("".into()),
        Primitive::Iterable(IterableKind::Numbers(vec![1.0])), Primitive::Graph(Graph::new(vec![n.clone()])), Primitive::GraphEdge(e), Primitive::GraphNode(n), Primitive::Tuple(Tuple::new(vec![Primitive::Number(1.0), Primitive::Boolean(true)])), Primitive::Undefined]
}
fn kinds() -> Vec<PrimitiveKind> {
    vec![PrimitiveKind::Number, PrimitiveKind::Integer, PrimitiveKind::PositiveInteger, PrimitiveKind::String, PrimitiveKind::Iterable(Box::new(PrimitiveKind::Number)), PrimitiveKind::Graph, PrimitiveKind::GraphEdge, PrimitiveKind::GraphNode,
        PrimitiveKind::Tuple(vec![PrimitiveKind::Number, PrimitiveKind::Boolean]), PrimitiveKind::Boolean, PrimitiveKind::Undefined, PrimitiveKind::Any]
}
/// static kind the checker records for the constant `r` of a program
fn static_kind_of_r(src: &str) -> Option<PrimitiveKind> {
    let pm = RoocParser::new(src.to_string()).parse().ok()?;
    let map = pm.create_token_type_map(&vec![], &IndexMap::new());
    for (_, t) in map.iter() {
        let v = serde_json::to_value(t).ok()?;
        if v["identifier"].as_str() == Some("r") { return serde_json::from_value::<serde_json::Value>(v["value"].clone()).ok().and_then(|k| kind_from_json(&k)); }
    }
    None
}
fn kind_from_json(v: &serde_json::Value) -> Option<PrimitiveKind> {
    let t = v.get("type").and_then(|x| x.as_str()).or_else(|| v.as_str())?;
    Some(match t { "Number" => PrimitiveKind::Number, "Integer" => PrimitiveKind::Integer, "PositiveInteger" => PrimitiveKind::PositiveInteger, "String" => PrimitiveKind::String, "Iterable" => PrimitiveKind::Iterable(Box::new(PrimitiveKind::Any)), "Graph" => PrimitiveKind::Graph,
        "GraphEdge" => PrimitiveKind::GraphEdge, "GraphNode" => PrimitiveKind::GraphNode, "Tuple" => PrimitiveKind::Tuple(vec![]), "Boolean" => PrimitiveKind::Boolean, "Undefined" => PrimitiveKind::Undefined, "Any" => PrimitiveKind::Any, _ => return None })
}
fn base(e: &TransformError) -> &TransformError { match e { TransformError::SpannedError { spanned_error, .. } => base(spanned_error.value()), other => other } }
/// type-class errors of the property; everything else is data-dependent (or a declaration/definition clash)
fn type_class(e: &TransformError) -> Option<&'static str> {
    match base(e) {
        TransformError::WrongArgument { .. } => Some("WrongArgument"), TransformError::WrongExpectedArgument { .. } => Some("WrongExpectedArgument"), TransformError::NonExistentFunction(_) => Some("NonExistentFunction"),
        TransformError::WrongFunctionSignature { .. } => Some("WrongFunctionSignature"), TransformError::WrongNumberOfArguments { .. } => Some("WrongNumberOfArguments"), TransformError::BinOpError { .. } => Some("BinOpError"),
        TransformError::UnOpError { .. } => Some("UnOpError"), TransformError::Unspreadable(_) => Some("Unspreadable"), TransformError::SpreadError { .. } => Some("SpreadError"), TransformError::UndeclaredVariable(_) => Some("UndeclaredVariable"),
        // UndeclaredVariableDomain is raised for a member of a declared family whose computed index lies outside the declared
        // index set (x_{-2} with x_i for i in 0..4): data-dependent (index out of range); an undeclared family or plain name is
        // UndeclaredVariable and is checked statically
        // "value that cannot be destructured" is raised as a free-form error by apply_tuple
        TransformError::Other(m) if m.contains("Cannot destructure") => Some("CannotDestructure"),
        _ => None,
    }
}

// ---------- perturbed programs
const SCALARS: &[&str] = &["1", "2", "0", "2.5", "-1", "true", "false", "\"s\"", "n", "k", "b", "s", "len(A)", "A[0]", "A[1]", "M[0][1]", "len(M)", "x", "x_0"];
const ITERS: &[&str] = &["A", "M", "M[0]", "0..3", "0..=2", "0..n", "0..len(A)", "range(0, 3)", "enumerate(A)", "edges(G)", "nodes(G)", "neigh_edges(v)", "zip(A, A)", "S", "n", "b", "s", "G", "Em", "[]", "[true, false]", "[\"a\", \"b\"]", "n..k", "0..2.5", "0..b"];
fn scalar(r: &mut Rng, depth: usize) -> String {
    if depth == 0 || r.chance(1, 2) { return r.pick(SCALARS).to_string(); }
    match r.below(9) {
        0 => format!("({} + {})", scalar(r, depth - 1), scalar(r, depth - 1)), 1 => format!("({} * {})", scalar(r, depth - 1), scalar(r, depth - 1)), 2 => format!("({} - {})", scalar(r, depth - 1), scalar(r, depth - 1)),
        3 => format!("({} / {})", scalar(r, depth - 1), scalar(r, depth - 1)), 4 => format!("-({})", scalar(r, depth - 1)), 5 => format!("A[{}]", scalar(r, depth - 1)), 6 => format!("len({})", r.pick(ITERS)),
        7 => format!("({} and {})", scalar(r, depth - 1), scalar(r, depth - 1)), _ => format!("(not {})", scalar(r, depth - 1)),
    }
}
fn gen_program(r: &mut Rng) -> String {
    let it = |r: &mut Rng| -> String { match r.below(5) { 0 => format!("i in {}", r.pick(ITERS)), 1 => format!("(a, c) in {}", r.pick(ITERS)), 2 => if r.chance(1, 2) { format!("(a, c, w) in {}", r.pick(ITERS)) } else { format!("(a, c, w, e4) in {}", r.pick(ITERS)) }, 3 => format!("i in {}, j in {}", r.pick(ITERS), r.pick(ITERS)), _ => format!("(v, i) in enumerate({})", r.pick(ITERS)) } };
    let body = |r: &mut Rng| -> String { match r.below(6) { 0 => format!("x_i * {}", scalar(r, 1)), 1 => format!("{} * x", scalar(r, 2)), 2 => "x_a".to_string(), 3 => format!("x_{{{}}}", scalar(r, 1)), 4 => format!("{}", scalar(r, 2)), _ => "i * x_i".to_string() } };
    let mut cons: Vec<String> = Vec::new();
    for _ in 0..1 + r.below(3) {
        cons.push(match r.below(8) {
            0 => format!("sum({}) {{ {} }} <= {}", it(r), body(r), scalar(r, 1)),
            1 => format!("{} >= {} for {}", body(r), scalar(r, 1), it(r)),
            2 => format!("max({}) {{ {} }} <= 10", it(r), body(r)),
            3 => format!("{} <= 10", scalar(r, 2)),
            4 => format!("x_{{{}}} + x >= 0", scalar(r, 1)),
            5 => format!("min {{ {}, {} }} >= {}", body(r), scalar(r, 1), scalar(r, 1)),
            6 => format!("{}({}) <= 3", r.pick(&["len", "enumerate", "edges", "nodes", "range", "neigh_edges", "zip", "nope", "neigh_edges_of"]), (0..r.below(3)).map(|_| if r.chance(1, 2) { r.pick(ITERS).to_string() } else { scalar(r, 1) }).collect::<Vec<_>>().join(", ")),
            _ => format!("any({}) {{ x_i >= {} }}", it(r), scalar(r, 1)),
        });
    }
    let decl = match r.below(5) { 0 => "x_i as Real for i in 0..4".to_string(), 1 => format!("x_i as Boolean for i in {}", r.pick(ITERS)), 2 => format!("x_i as IntegerRange({}, {}) for i in 0..4", scalar(r, 1), scalar(r, 1)), 3 => "x_i as Real for i in 0..4\n    x_a as Real for (a, c) in edges(G)".to_string(), _ => format!("x_i as Real({}, 10) for i in 0..4", scalar(r, 1)) };
    format!("min x + {}\ns.t.\n    {}\nwhere\n    let n = 3\n    let k = 2.5\n    let b = true\n    let s = \"str\"\n    let A = [1, 2, 3]\n    let M = [[1, 2], [3, 4]]\n    let S = [\"p\", \"q\"]\n    let Em = []\n    let G = Graph {{ A -> [B: 2, C], B -> [C], C }}\n    let v = \"A\"\ndefine\n    x as Real\n    {}", scalar(r, 1), cons.join("\n    "), decl)
}

fn main() {
    let args: Vec<String> = std::env::args().collect();
    let seed: u64 = args[1].parse().unwrap(); let n: usize = args[2].parse().unwrap(); let outdir = &args[3];
    let corpus = args.get(4);
    let mut r = Rng::new(seed ^ 0xC19);
    let mut rep = Report::default();
    let mut cases = std::io::BufWriter::new(std::fs::File::create(format!("{outdir}/cases.txt")).unwrap());
    let mut inputs = std::io::BufWriter::new(std::fs::File::create(format!("{outdir}/inputs.txt")).unwrap());
    std::panic::set_hook(Box::new(|_| {}));
    // (a1) static tables on every pair of kinds
    let ks = kinds();
    for k1 in &ks { for (op, oc, _) in BOPS { for k2 in &ks {
        let can = k1.can_apply_binary_op(*op, k2.clone());
        writeln!(cases, "(TCanBin {} {} {} {})", kind_coq(k1), oc, kind_coq(k2), can).unwrap(); writeln!(inputs, "can {:?} {} {:?}", k1, oc, k2).unwrap(); rep.count("tables.static_binary");
    } } for (op, oc) in UOPS { let can = k1.can_apply_unary_op(*op); writeln!(cases, "(TCanUn {} {} {})", kind_coq(k1), oc, can).unwrap(); writeln!(inputs, "can {} {:?}", oc, k1).unwrap(); rep.count("tables.static_unary"); } }
    // (a2) dynamic tables on representative values (panics are C18's business, recorded there)
    let vs = values();
    for v1 in &vs { for (op, oc, _) in BOPS { for v2 in &vs {
        match std::panic::catch_unwind(|| v1.apply_binary_op(*op, v2)) { Ok(res) => { writeln!(cases, "(TApplyBin {} {} {} {})", val_coq(v1), oc, val_coq(v2), res_coq(&res)).unwrap(); writeln!(inputs, "{} {} {}", v1, oc, v2).unwrap(); rep.count("tables.dynamic_binary"); }
            Err(_) => rep.fail(json!({"prop":"C18","kind":"panic","input":format!("{} {} {}", v1, oc, v2)})) }
    } } for (op, oc) in UOPS { match std::panic::catch_unwind(|| v1.apply_unary_op(*op)) { Ok(res) => { writeln!(cases, "(TApplyUn {} {} {})", oc, val_coq(v1), res_coq(&res)).unwrap(); writeln!(inputs, "{} {}", oc, v1).unwrap(); rep.count("tables.dynamic_unary"); } Err(_) => rep.fail(json!({"prop":"C18","kind":"panic","input":format!("{} {}", oc, v1)})) } } }
    // (a3) static result kinds through the checker: let r = a op b
    let lits: Vec<Primitive> = vec![Primitive::Number(2.5), Primitive::Integer(3), Primitive::Boolean(true), Primitive::String("a".into())];
    for v1 in &lits { for (_, oc, sym) in BOPS { for v2 in &lits {
        let (t1, t2) = (val_text(v1).unwrap(), val_text(v2).unwrap());
        let src = format!("min 1\ns.t.\n    1 >= 0\nwhere\n    let a = {t1}\n    let b = {t2}\n    let r = a {sym} b");
        if let Some(k) = static_kind_of_r(&src) { writeln!(cases, "(TResBin {} {} {} {})", kind_coq(&v1.get_type()), oc, kind_coq(&v2.get_type()), kind_coq(&k)).unwrap(); writeln!(inputs, "kind of {t1} {sym} {t2}").unwrap(); rep.count("tables.static_result_kinds"); } else { rep.count("tables.static_result_unreadable"); }
    } } for (oc, sym) in [("Neg", "-"), ("UNot", "not ")] { let t1 = val_text(v1).unwrap(); let src = format!("min 1\ns.t.\n    1 >= 0\nwhere\n    let a = {t1}\n    let r = {sym}a");
        if let Some(k) = static_kind_of_r(&src) { writeln!(cases, "(TResUn {} {} {})", oc, kind_coq(&v1.get_type()), kind_coq(&k)).unwrap(); writeln!(inputs, "kind of {sym}{t1}").unwrap(); rep.count("tables.static_result_kinds"); } } }
    // (b) constant expressions end to end: `let r = <tree>`; checker verdict and transform outcome
    let consts = [("a", "2.5", "(vnum (F (5) (-1)))", "KNumber"), ("i", "3", "(VInt 3%Z)", "KInteger"), ("t", "true", "(VBool true)", "KBoolean"), ("w", "\"s\"", "(VStr \"s\")", "KString"), ("z", "0", "(VInt 0%Z)", "KInteger"), ("L", "[1, 2]", "(VOpaque KIterable)", "KIterable")];
    fn tree(r: &mut Rng, d: usize) -> (String, String) {
        let names = ["a", "i", "t", "w", "z", "L"];
        if d == 0 || r.chance(1, 3) { return match r.below(4) { 0 => { let v = *r.pick(&[0i64, 1, 2, 5]); (format!("{}", v), format!("(CLit (VInt {}%Z))", v)) } 1 => ("1.5".into(), "(CLit (vnum (F (3) (-1))))".into()), 2 => ("false".into(), "(CLit (VBool false))".into()), _ => { let n = *r.pick(&names); (n.to_string(), format!("(CConst \"{}\")", n)) } }; }
        if r.chance(1, 6) { let (t, c) = tree(r, d - 1); return if r.chance(1, 2) { (format!("-({})", t), format!("(CUn Neg {})", c)) } else { (format!("(not {})", t), format!("(CUn UNot {})", c)) }; }
        let (op, oc, sym) = BOPS[r.below(9)]; let _ = op;
        let (t1, c1) = tree(r, d - 1); let (t2, c2) = tree(r, d - 1);
        (format!("({} {} {})", t1, sym, t2), format!("(CBin {} {} {})", oc, c1, c2))
    }
    for _ in 0..n {
        let (t, c) = tree(&mut r, 3);
        let src = format!("min 1\ns.t.\n    1 >= 0\nwhere\n{}\n    let r = {}", consts.iter().map(|(n, v, _, _)| format!("    let {} = {}", n, v)).collect::<Vec<_>>().join("\n"), t);
        let p = RoocParser::new(src.clone());
        let pm = match p.parse() { Ok(x) => x, Err(_) => { rep.count("cexp.unparseable"); continue; } };
        let accepted = pm.create_type_checker(&vec![], &IndexMap::new()).is_ok();
        let outcome = match std::panic::catch_unwind(|| pm.clone().transform(vec![], &IndexMap::new())) { Err(_) => { rep.fail(json!({"prop":"C18","kind":"panic","input":src})); continue; } Ok(Ok(_)) => "OOk", Ok(Err(e)) => match base(&e) { TransformError::BinOpError { .. } | TransformError::UnOpError { .. } | TransformError::WrongArgument { .. } | TransformError::WrongExpectedArgument { .. } => "OType", TransformError::UndeclaredVariable(_) => "OUndeclared", _ => { let m = format!("{}", e.traced_error()); if m.contains("ivision by zero") { "ODivZero" } else if m.contains("verflow") { "OOverflow" } else if m.contains("nsupported") || m.contains("ncompatible") || m.contains("cannot be applied") { "OType" } else { "OOther" } } } };
        rep.count(&format!("cexp.{}.{}", if accepted { "accepted" } else { "rejected" }, outcome));
        if accepted && outcome == "OType" { rep.fail(json!({"prop":"C19","kind":"accepted-constant-expression-fails-with-type-error","class":"unclassified","input":t})); }
        let line = format!("(TCexp {} {} {})", c, accepted, outcome);
        if rep.distinct_hash_new(&line) { writeln!(cases, "{line}").unwrap(); writeln!(inputs, "let r = {t}").unwrap(); }
    }
    // the width of an element is static for enumerate / edges / neigh_edges / zip; for rows of an array it is data, so a
    // failed destructuring there is data-dependent
    fn static_width_only(src: &str) -> bool {
        let mut rest = src;
        while let Some(i) = rest.find(") in ") {
            let before = &rest[..i];
            let is_tuple = before.rfind('(').map(|k| before[k..].contains(',')).unwrap_or(false);
            let after = &rest[i + 5..];
            if is_tuple && !(after.starts_with("enumerate(") || after.starts_with("edges(") || after.starts_with("neigh_edges(") || after.starts_with("zip(")) { return false; }
            rest = after;
        }
        true
    }
    // (c) perturbed programs + the repository's own programs
    let mut programs: Vec<(String, &str)> = (0..n * 4).map(|_| (gen_program(&mut r), "perturbed")).collect();
    // deterministic near-miss probes: one static check boundary at a time inside an otherwise valid program
    let cons_probes = ["x >= 0 for (a, c, w, e4) in edges(G)", "x >= 0 for (a, c, w) in edges(G)", "x >= 0 for (a, c) in edges(G)", "x >= 0 for (a, c, w) in enumerate(A)", "x >= 0 for (a, c) in enumerate(A)", "x >= 0 for (a, c, w) in zip(A, A)",
        "x >= 0 for (a, c, w, e4) in neigh_edges_of(v, G)", "sum((a, c, w, e4) in edges(G)) { x } <= 1", "sum((a, c, w) in enumerate(S)) { x } <= 1", "sum((a) in A) { x } <= 1", "x >= 0 for (a, c) in A", "x >= 0 for (a, c) in nodes(G)",
        "len(A, A) <= 1", "len() <= 1", "x + len(n) <= 1", "x + len(G) <= 1", "sum(i in enumerate()) { x } <= 1", "sum(i in range(0)) { x } <= 1", "sum(i in range(0, 2, 3, 4)) { x } <= 1", "sum(i in edges(A)) { x } <= 1", "sum(i in nodes(n)) { x } <= 1", "sum(i in zip(A)) { x } <= 1", "nope(A) <= 1", "sum(i in nope(A)) { x } <= 1",
        "x + A[s] <= 1", "x + A[b] <= 1", "x + A[G] <= 1", "x + M[0][s] <= 1", "x + n[0] <= 1", "x + s[0] <= 1", "x + G[0] <= 1", "x_{G} >= 0", "x_{A} >= 0", "x_{M[0]} >= 0",
        "x + (s + 1) <= 2", "x + (1 + s) <= 2", "x + (s + s) <= 2", "x + (s * 2) <= 2", "(b and n) or x >= 0", "x + (not n) <= 1", "x + (-s) <= 1", "x + (-G) <= 1", "x + (A + 1) <= 1", "x + (G * 2) <= 1", "x + (b + 1) <= 2", "x + (b * k) <= 2", "x + (n / b) <= 2",
        "x >= 0 for i in n", "x >= 0 for i in s", "x >= 0 for i in G", "x >= 0 for i in b", "x >= 0 for i in 0..s", "x >= 0 for i in b..3", "x >= 0 for i in 0..A", "x >= 0 for i in A[0]", "x >= 0 for i in M[0]", "x >= 0 for i in M[0][0]",
        "min { x, s } >= 0", "max { x, G } >= 0", "abs { s } >= 0", "avg { x, A } >= 0", "all { b, n } ", "any { s }", "x + sum(i in A) { s } <= 1", "x + sum(i in A) { G } <= 1", "x + prod(i in S) { i } <= 1", "x + sum(i in S) { x_i } <= 1",
        // set functions over iterables of different element kinds, with the elements then used as numbers / as strings
        "sum(i in union(A, S)) { i * x } <= 1", "sum(i in union(S, A)) { i * x } <= 1", "sum(i in intersection(A, S)) { i * x } <= 1", "sum(i in difference(A, S)) { i * x } <= 1", "sum(i in difference(S, A)) { i * x } <= 1",
        "sum(i in union(A, M)) { i * x } <= 1", "sum(i in union(A, A)) { i * x } <= 7", "sum(i in union(S, S)) { x_i } <= 7", "sum(i in union(A, nodes(G))) { i * x } <= 1", "x + len(union(A, S)) <= 9", "sum(i in union(A, 3)) { i * x } <= 1", "sum(i in union(A)) { i * x } <= 1"];
    for c in cons_probes.iter() {
        programs.push((format!("min x\ns.t.\n    {}\nwhere\n    let n = 3\n    let k = 2.5\n    let b = true\n    let s = \"str\"\n    let A = [1, 2, 3]\n    let M = [[1, 2], [3, 4]]\n    let S = [\"p\", \"q\"]\n    let G = Graph {{ A -> [B: 2, C], B -> [C], C }}\n    let v = \"A\"\ndefine\n    x as Real\n    x_i as Real for i in 0..4\n    x_p, x_q as Real", c), "probe"));
    }
    let decl_probes = ["y as Real(s, 10)", "y as Real(0, G)", "y as IntegerRange(k, 3)", "y as IntegerRange(0, s)", "y as IntegerRange(b, 3)", "y as NonNegativeReal(A, 3)", "y_i as Real for i in s", "y_i as Real for (i, j) in A", "y_i as Real for (i, j, l) in enumerate(A)", "y_i as Real for (i, j, l, o) in edges(G)", "y_i as Boolean for i in 0..len(n)", "y as Integer", "y as Real(0)", "y as Boolean(1)",
        // declarations with a single bound
        "y as Real(s)", "y as Real(G)", "y as Real(A)", "y as NonNegativeReal(s)", "y as NonNegativeReal(len(n))", "y as NonNegativeReal(nope)", "y as Real(n)", "y as NonNegativeReal(k)", "y as NonNegativeReal(b)"];
    for d in decl_probes.iter() {
        programs.push((format!("min x\ns.t.\n    x >= 1\nwhere\n    let n = 3\n    let k = 2.5\n    let b = true\n    let s = \"str\"\n    let A = [1, 2, 3]\n    let G = Graph {{ A -> [B: 2, C], B -> [C], C }}\ndefine\n    x as Real\n    {}", d), "probe"));
    }
    // objectives of every kind of value, and constants defined by every kind of expression (block functions included)
    let obj_probes = ["s", "A", "G", "S", "M", "M[0]", "v", "b", "n", "k", "x + s", "len(A)", "A[0]", "S[0]", "nodes(G)", "x + b", "-s", "not b", "sum(i in S) { i }", "min { s, 1 }"];
    for o in obj_probes.iter() {
        for dir in ["min", "max"] {
            programs.push((format!("{} {}\ns.t.\n    x <= 10\nwhere\n    let n = 3\n    let k = 2.5\n    let b = true\n    let s = \"str\"\n    let A = [1, 2, 3]\n    let M = [[1, 2], [3, 4]]\n    let S = [\"p\", \"q\"]\n    let G = Graph {{ A -> [B: 2, C], B -> [C], C }}\n    let v = \"A\"\ndefine\n    x as Real", dir, o), "probe"));
        }
    }
    let let_probes = ["sum(i in A) { i }", "prod(i in A) { i }", "min(i in A) { i }", "max(i in A) { i }", "avg(i in A) { i }", "min { 1, 2 }", "max { n, k }", "avg { 1, 2 }", "abs { n }", "abs { 0 - k }", "len(A) + 1", "A[0] * 2", "n + sum(i in A) { i }", "[sum(i in A) { i }, 2]", "len(S)", "n * k", "not b", "-n", "s", "nodes(G)", "edges(G)", "A[n - 3]", "x", "x + 1"];
    for l in let_probes.iter() {
        for usage in ["x >= 1", "x >= t", "x >= 0 for i in 0..t", "x + A[t] >= 0"] {
            programs.push((format!("min x\ns.t.\n    {}\nwhere\n    let n = 3\n    let k = 2.5\n    let b = true\n    let s = \"str\"\n    let A = [1, 2, 3]\n    let S = [\"p\", \"q\"]\n    let G = Graph {{ A -> [B: 2, C], B -> [C], C }}\n    let t = {}\ndefine\n    x as Real", usage, l), "probe"));
        }
    }
    if let Some(cp) = corpus { if let Ok(f) = std::fs::read_to_string(cp) { for line in f.lines() { if let Ok(s) = serde_json::from_str::<String>(line) { programs.push((s, "corpus")); } } } }
    for (i, (src, stream)) in programs.iter().enumerate() {
        let p = RoocParser::new(src.clone());
        let pm = match p.parse() { Ok(x) => x, Err(_) => { rep.count(&format!("{stream}.does_not_parse")); continue; } };
        let tc = match std::panic::catch_unwind(|| pm.create_type_checker(&vec![], &IndexMap::new())) { Ok(x) => x, Err(_) => { rep.fail(json!({"prop":"C18","kind":"panic","stage":"type_check","input":src})); continue; } };
        if let Err(e) = &tc { rep.count(&format!("{stream}.rejected.{}", type_class(e).unwrap_or("other"))); continue; }
        rep.count(&format!("{stream}.accepted"));
        match std::panic::catch_unwind(|| pm.clone().transform(vec![], &IndexMap::new())) {
            Err(_) => rep.fail(json!({"prop":"C18","kind":"panic","stage":"transform","input":src})),
            Ok(Ok(_)) => rep.count(&format!("{stream}.accepted.transforms")),
            Ok(Err(e)) => match type_class(&e) {
                Some(k) if k == "CannotDestructure" && !static_width_only(src) => rep.count(&format!("{stream}.accepted.data_dependent_error")),
                Some(k) => { let b = base(&e);
                    // a decision variable of the generated program (x, x_<index>) used where a value is needed
                    let k = match b { TransformError::UndeclaredVariable(nm) if (*stream == "perturbed" || *stream == "probe") && (nm == "x" || nm.starts_with("x_")) => "decision-variable-in-value-position",
                        // PreExp::as_primitive on a block function (sum/prod/min/max/avg/abs blocks): no value at transform time
                        TransformError::WrongArgument { got: PrimitiveKind::Undefined, expected: PrimitiveKind::Any } => "block-function-in-value-position", _ => k };
                    rep.fail(json!({"prop":"C19","kind":"accepted-program-fails-with-type-class-error","class":k,"input":src,"error":format!("{}", e.traced_error()).chars().take(300).collect::<String>(),"base":format!("{:?}", b).chars().take(200).collect::<String>()})); }
                None => rep.count(&format!("{stream}.accepted.data_dependent_error")),
            },
        }
        if i % 499 == 0 { rep.sample(json!({"program": src, "accepted": tc.is_ok()}), 6); }
    }
    rep.write(&format!("{outdir}/report.json"));
}
