//! C13/C14 harness: small continuous linear models through into_standard_form, into_tableau and
//! solve_step_by_step; prints correspondence cases (standard form, start tableau, pivot trace, result) and
//! evaluates the properties on the implementation (feasibility transfer; step invariants on every prefix).
use harness::{coqfmt as cq, models::*, report::Report, rng::Rng};
use rooc::{Comparison, LinearModel, OptimizationType, Tableau, VariableType};
use serde_json::json;
use std::io::Write;

fn xl(v: &[f64]) -> String { cq::list(v, |c| cq::xq(*c)) }
fn tab(t: &Tableau) -> String {
    format!("(mkT {} {} {} {} {} {} {} {})", xl(t.c_vec()), cq::list(t.a_matrix(), |r| xl(r)), xl(t.b_vec()),
        cq::list(t.in_basis(), |i| format!("{}%nat", i)), cq::xq(t.current_value()), cq::xq(t.value_offset()),
        cq::boolean(t.flip_result()), format!("{}%nat", t.variables().len()))
}

fn gen_model(r: &mut Rng, exhaustive: Option<usize>) -> LinearModel {
    let _ = exhaustive;
    let mut m = LinearModel::new();
    let nv = 1 + r.below(3);
    let names = ["x", "y", "z"];
    for i in 0..nv {
        let t = match r.below(10) {
            7 => { let lo = r.range(1, 3) as f64 * 0.5; VariableType::NonNegativeReal(lo, lo + r.range(0, 4) as f64) }   // both bounds bind
            8 => VariableType::Real(r.range(-4, 3) as f64, f64::INFINITY),
            9 => { let lo = r.range(-3, 3) as f64; VariableType::Real(lo, lo) }                                           // fixed variable
            0 | 1 => VariableType::NonNegativeReal(0.0, f64::INFINITY),
            2 => VariableType::Real(f64::NEG_INFINITY, f64::INFINITY),
            3 => VariableType::NonNegativeReal(0.0, r.range(1, 6) as f64),
            4 => VariableType::Real(r.range(-4, 0) as f64, r.range(1, 5) as f64),
            5 => VariableType::Real(f64::NEG_INFINITY, r.range(-1, 4) as f64),
            _ => VariableType::NonNegativeReal(r.range(0, 2) as f64 * 0.5, f64::INFINITY),
        };
        m.add_variable(names[i], t);
    }
    let coefs = [0.0, 1.0, -1.0, 2.0, -2.0, 1.0, 0.5, 3.0];
    let nr = r.below(4);
    for _ in 0..nr {
        let c: Vec<f64> = (0..nv).map(|_| *r.pick(&coefs)).collect();
        let cmp = match r.below(4) { 0 | 1 => Comparison::LessOrEqual, 2 => Comparison::GreaterOrEqual, _ => Comparison::Equal };
        let rhs = *r.pick(&[0.0, 1.0, 2.0, -1.0, 4.0, -2.0, 3.0, 6.0, 0.5]);
        m.add_constraint(c, cmp, rhs);
    }
    let obj: Vec<f64> = (0..nv).map(|_| *r.pick(&coefs)).collect();
    m.set_objective(obj, if r.chance(1, 2) { OptimizationType::Min } else { OptimizationType::Max });
    // the domain map of a compiled model is in declaration order, its columns are sorted: now and then the two orders differ
    if nv >= 2 && r.chance(1, 4) {
        let (o, t, off, c, v, d) = m.into_parts();
        let d: indexmap::IndexMap<String, rooc::model_transformer::DomainVariable> = d.into_iter().rev().collect();
        return LinearModel::new_from_parts(o, t, off, c, v, d);
    }
    m
}

fn corpus() -> Vec<LinearModel> {
    let mut out = Vec::new();
    // Klee-Minty (3d), Beale's cycling example, degenerate vertex, redundant equalities
    let nn = VariableType::NonNegativeReal(0.0, f64::INFINITY);
    let mut m = LinearModel::new();
    for n in ["x1", "x2", "x3"] { m.add_variable(n, nn); }
    m.add_constraint(vec![1.0, 0.0, 0.0], Comparison::LessOrEqual, 5.0);
    m.add_constraint(vec![4.0, 1.0, 0.0], Comparison::LessOrEqual, 25.0);
    m.add_constraint(vec![8.0, 4.0, 1.0], Comparison::LessOrEqual, 125.0);
    m.set_objective(vec![4.0, 2.0, 1.0], OptimizationType::Max);
    out.push(m);
    let mut m = LinearModel::new();
    for n in ["x1", "x2", "x3", "x4"] { m.add_variable(n, nn); }
    m.add_constraint(vec![0.25, -8.0, -1.0, 9.0], Comparison::LessOrEqual, 0.0);
    m.add_constraint(vec![0.5, -12.0, -0.5, 3.0], Comparison::LessOrEqual, 0.0);
    m.add_constraint(vec![0.0, 0.0, 1.0, 0.0], Comparison::LessOrEqual, 1.0);
    m.set_objective(vec![-0.75, 20.0, -0.5, 6.0], OptimizationType::Min);
    out.push(m);
    let mut m = LinearModel::new();
    for n in ["x", "y"] { m.add_variable(n, nn); }
    m.add_constraint(vec![1.0, 1.0], Comparison::Equal, 2.0);
    m.add_constraint(vec![2.0, 2.0], Comparison::Equal, 4.0);
    m.add_constraint(vec![1.0, -1.0], Comparison::GreaterOrEqual, 0.0);
    m.set_objective(vec![1.0, 2.0], OptimizationType::Min);
    out.push(m);
    let mut m = LinearModel::new();
    m.add_variable("x", VariableType::Real(f64::NEG_INFINITY, f64::INFINITY));
    m.add_variable("y", VariableType::NonNegativeReal(0.0, 3.0));
    m.add_constraint(vec![1.0, 1.0], Comparison::GreaterOrEqual, -2.0);
    m.add_constraint(vec![0.0, 1.0], Comparison::LessOrEqual, -0.000001);
    m.set_objective(vec![1.0, 0.0], OptimizationType::Min);
    out.push(m);
    // a genuine coefficient below the comparison tolerance (4e-6) next to a large value: every row must still be eliminated
    let mut m = LinearModel::new();
    for n in ["x0", "x1"] { m.add_variable(n, nn); }
    m.add_constraint(vec![1.0, 0.0], Comparison::LessOrEqual, 1000000.0);
    m.add_constraint(vec![0.000004, 1.0], Comparison::LessOrEqual, 10.0);
    m.add_constraint(vec![1.0, 1.0], Comparison::LessOrEqual, 2000000.0);
    m.set_objective(vec![-1.0, -1.0], OptimizationType::Min);
    out.push(m);
    // two badly scaled models on which the absolute 1e-5 tolerance of the ratio test / of the optimality test decides
    let mut m = LinearModel::new();
    m.add_variable("x", nn);
    m.add_constraint(vec![1.0], Comparison::LessOrEqual, 0.000009);
    m.add_constraint(vec![1000000.0], Comparison::LessOrEqual, 0.0);
    m.set_objective(vec![-1.0], OptimizationType::Min);
    out.push(m);
    let mut m = LinearModel::new();
    m.add_variable("x", nn);
    m.add_constraint(vec![1.0], Comparison::LessOrEqual, 10000000.0);
    m.add_constraint(vec![1.0], Comparison::LessOrEqual, 20000000.0);
    m.set_objective(vec![-0.000005], OptimizationType::Min);
    out.push(m);
    // Chvatal's cycling example with an unused variable, and with a never-binding row over a costless variable:
    // the anti-cycling branch must not take a column of zero reduced cost
    for relax in [false, true] {
        let mut m = LinearModel::new();
        for n in ["x0", "x1", "x2", "x3", "x4"] { m.add_variable(n, nn); }
        m.add_constraint(vec![0.0, 0.5, -5.5, -2.5, 9.0], Comparison::LessOrEqual, 0.0);
        m.add_constraint(vec![0.0, 0.5, -1.5, -0.5, 1.0], Comparison::LessOrEqual, 0.0);
        m.add_constraint(vec![0.0, 1.0, 0.0, 0.0, 0.0], Comparison::LessOrEqual, 1.0);
        if relax { m.add_constraint(vec![-1.0, 0.0, 1.0, 0.0, 0.0], Comparison::LessOrEqual, 5.0); }
        m.set_objective(vec![0.0, 10.0, -57.0, -9.0, -24.0], OptimizationType::Max);
        out.push(m);
    }
    // a genuine equality with right-hand side 0 and only non-positive entries: its artificial variable is still basic
    // after phase one and has to be driven out with a negative pivot
    let mut m = LinearModel::new();
    for n in ["x", "y", "z"] { m.add_variable(n, nn); }
    m.add_constraint(vec![-1.0, -1.0, 0.0], Comparison::Equal, 0.0);
    m.add_constraint(vec![1.0, 0.0, 1.0], Comparison::Equal, 3.0);
    m.set_objective(vec![1.0, 0.0, 0.0], OptimizationType::Max);
    out.push(m);
    let mut m = LinearModel::new();
    for n in ["x", "y", "z"] { m.add_variable(n, nn); }
    m.add_constraint(vec![-2.0, 0.0, -1.0], Comparison::Equal, 0.0);
    m.add_constraint(vec![1.0, 1.0, 0.0], Comparison::GreaterOrEqual, 1.0);
    m.add_constraint(vec![1.0, 1.0, 1.0], Comparison::LessOrEqual, 4.0);
    m.set_objective(vec![-1.0, 1.0, -1.0], OptimizationType::Min);
    out.push(m);
    out
}

fn dotv(a: &[f64], x: &[f64]) -> f64 { a.iter().zip(x).map(|(p, q)| p * q).sum() }

fn main() {
    let args: Vec<String> = std::env::args().collect();
    let seed: u64 = args[1].parse().unwrap();
    let n: usize = args[2].parse().unwrap();
    let outdir = &args[3];
    let mut r = Rng::new(seed ^ 0xC13);
    let mut rep = Report::default();
    let mut cases = std::io::BufWriter::new(std::fs::File::create(format!("{outdir}/cases.txt")).unwrap());
    let mut inputs = std::io::BufWriter::new(std::fs::File::create(format!("{outdir}/inputs.txt")).unwrap());
    let mut all = corpus();
    for _ in 0..n { all.push(gen_model(&mut r, None)); }
    // degenerate stream: equalities with right-hand side 0 and one-signed rows next to ordinary rows (two-phase starts with
    // artificial variables that stay basic at level 0)
    for _ in 0..n / 4 {
        let mut m = LinearModel::new();
        let nv = 2 + r.below(2);
        for i in 0..nv { m.add_variable(["x", "y", "z"][i], VariableType::NonNegativeReal(0.0, f64::INFINITY)); }
        let sign = if r.chance(1, 2) { -1.0 } else { 1.0 };
        let c: Vec<f64> = (0..nv).map(|_| sign * *r.pick(&[0.0, 1.0, 1.0, 2.0])).collect();
        m.add_constraint(c, Comparison::Equal, 0.0);
        for _ in 0..1 + r.below(2) {
            let c: Vec<f64> = (0..nv).map(|_| *r.pick(&[0.0, 1.0, -1.0, 2.0, 1.0])).collect();
            let cmp = match r.below(3) { 0 => Comparison::LessOrEqual, 1 => Comparison::GreaterOrEqual, _ => Comparison::Equal };
            m.add_constraint(c, cmp, *r.pick(&[0.0, 1.0, 2.0, 3.0, 4.0]));
        }
        let obj: Vec<f64> = (0..nv).map(|_| *r.pick(&[0.0, 1.0, -1.0, 2.0])).collect();
        m.set_objective(obj, if r.chance(1, 2) { OptimizationType::Min } else { OptimizationType::Max });
        all.push(m);
    }
    std::panic::set_hook(Box::new(|_| {}));
    for (idx, m) in all.iter().enumerate() {
        let text = m.to_string().replace('\n', " | ");
        let res = std::panic::catch_unwind(|| m.clone().into_standard_form());
        let std_res = match res { Ok(x) => x, Err(_) => { rep.fail(json!({"prop":"C18","kind":"panic","input":text})); continue; } };
        let (std_coq, std_ok) = match &std_res {
            Err(e) => { rep.count("std.err"); (format!("(inl {})", match e { rooc::SolverError::InvalidDomain { .. } => "EInvalidDomain", rooc::SolverError::UnimplementedOptimizationType { .. } => "EUnimplementedOpt", rooc::SolverError::UnavailableComparison { .. } => "EUnavailableCmp", _ => "EMissingDomain" }), None) }
            Ok(s) => {
                let (vars, off, obj, flip, rows) = s.verif_parts();
                (format!("(inr (mkSM {} {} {} {} {}))", cq::list(&vars, |v| cq::string(v)), cq::xq(off), xl(&obj), cq::boolean(flip),
                    cq::list(&rows, |(c, b)| format!("(mkEQ {} {})", xl(c), cq::xq(*b)))), Some((vars, off, obj, flip, rows)))
            }
        };
        let mut tab_coq = "None".to_string();
        let mut trace_coq = "[]".to_string();
        let mut result_coq = "RNone".to_string();
        if let (Ok(s), Some((vars, _off, obj, flip, rows))) = (&std_res, &std_ok) {
            rep.count("std.ok");
            // ---- C13 shape
            for (c, b) in rows { if *b < 0.0 { rep.fail(json!({"prop":"C13","kind":"negative-rhs-in-standard-form","class": if *b > -1e-5 { "rhs-within-tolerance-of-zero" } else { "unclassified" },"input":text,"rhs":b})); }
                if c.len() != vars.len() { rep.fail(json!({"prop":"C13","kind":"row-length","class":"unclassified","input":text})); } }
            if obj.len() != vars.len() { rep.fail(json!({"prop":"C13","kind":"objective-length","class":"unclassified","input":text})); }
            // ---- C13 forward transfer on a grid of original points
            let ovars = m.variables();
            let grid = [-2.0, -1.0, 0.0, 0.5, 1.0, 2.0, 3.0, 5.0];
            let total = grid.len().pow(ovars.len() as u32);
            for k in 0..total.min(512) {
                let mut code = k; let mut x = vec![0.0; ovars.len()];
                for j in 0..ovars.len() { x[j] = grid[code % grid.len()]; code /= grid.len(); }
                let mut feas = true;
                for (j, v) in ovars.iter().enumerate() { if !in_type(m.domain().get(v).unwrap().get_type(), x[j]) { feas = false; } }
                for c in m.constraints() { let l = dotv(c.coefficients(), &x); let ok = match c.constraint_type() { Comparison::LessOrEqual => l <= c.rhs() + 1e-9, Comparison::GreaterOrEqual => l >= c.rhs() - 1e-9, Comparison::Equal => (l - c.rhs()).abs() <= 1e-9, _ => false }; if !ok { feas = false; } }
                // build the standard-form point: structural columns from names, slack/surplus from the row residual
                let mut xs = vec![0.0; vars.len()];
                for (j, v) in vars.iter().enumerate() {
                    if let Some(rest) = v.strip_prefix("$p") { if let Some(i) = ovars.iter().position(|o| o == rest) { xs[j] = x[i].max(0.0); continue; } }
                    if let Some(rest) = v.strip_prefix("$m") { if let Some(i) = ovars.iter().position(|o| o == rest) { xs[j] = (-x[i]).max(0.0); continue; } }
                    if let Some(i) = ovars.iter().position(|o| o == v) { xs[j] = x[i]; }
                }
                // each slack column appears in exactly one row: solve for it
                let mut ok_std = true;
                for (c, b) in rows {
                    let slack_cols: Vec<usize> = (0..vars.len()).filter(|j| (vars[*j].starts_with("$sl_") || vars[*j].starts_with("$su_")) && c[*j] != 0.0).collect();
                    let fixed: f64 = (0..vars.len()).filter(|j| !slack_cols.contains(j)).map(|j| c[j] * xs[j]).sum();
                    if let Some(j) = slack_cols.first() { xs[*j] = (b - fixed) / c[*j]; } else if (fixed - b).abs() > 1e-7 { ok_std = false; }
                }
                if xs.iter().any(|v| *v < -1e-7) { ok_std = false; }
                for (c, b) in rows { if (dotv(c, &xs) - b).abs() > 1e-6 { ok_std = false; } }
                rep.count("c13.points");
                if feas != ok_std {
                    rep.fail(json!({"prop":"C13","kind": if feas { "feasible-point-lost-in-standard-form" } else { "infeasible-point-admitted-by-standard-form" },"class":"unclassified","input":text,"point":x,"standard_point":xs}));
                } else if feas {
                    let o = dotv(m.objective(), &x) + m.objective_offset();
                    let so = dotv(obj, &xs); let back = (if *flip { -so } else { so }) + m.objective_offset();
                    if (o - back).abs() > 1e-6 { rep.fail(json!({"prop":"C13","kind":"objective-not-preserved","class":"unclassified","input":text,"point":x,"original":o,"standard":back})); }
                    rep.count("c13.feasible_points");
                }
            }
            // ---- tableau + trace
            match std::panic::catch_unwind(|| s.clone().into_tableau()) {
                Err(_) => { rep.fail(json!({"prop":"C18","kind":"panic","input":text,"stage":"into_tableau"})); continue; }
                Ok(Err(e)) => {
                    let k = match e { rooc::CanonicalTransformError::Infesible(_) => "TInfeasible", rooc::CanonicalTransformError::InvalidBasis(_) => "TInvalidBasis", _ => "TSimplexError" };
                    rep.count(&format!("tableau.err.{k}"));
                    tab_coq = format!("(Some (inl {k}))");
                }
                Ok(Ok(t0)) => {
                    rep.count("tableau.ok");
                    tab_coq = format!("(Some (inr {}))", tab(&t0));
                    let mut t = t0.clone();
                    let a0 = t0.a_matrix().clone(); let b0 = t0.b_vec().clone();
                    let c_init: Vec<f64> = obj.clone();
                    match t.solve_step_by_step(200) {
                        Ok(res) => {
                            let steps = res.steps();
                            let mut tr = Vec::new();
                            let mut prev_obj = f64::INFINITY;
                            let mut states: Vec<Tableau> = steps.iter().map(|s| s.verif_parts().0.clone()).collect();
                            states.push(res.result().tableau().clone());
                            for s in steps { let (_, e, l, _) = s.verif_parts(); tr.push((e, l)); }
                            if !tr.is_empty() { rep.count("nontrivial.pivots"); }
                            rep.add("c14.steps", tr.len() as u64);
                            // ---- C14 invariants on every prefix
                            for (si, st) in states.iter().enumerate() {
                                let nvars = st.c_vec().len();
                                let mut x = vec![0.0; nvars];
                                for (i, j) in st.in_basis().iter().enumerate() { x[*j] = st.b_vec()[i]; }
                                let mut bad: Vec<String> = Vec::new();
                                for (i, j) in st.in_basis().iter().enumerate() {
                                    for (rr, row) in st.a_matrix().iter().enumerate() { let want = if rr == i { 1.0 } else { 0.0 }; if (row[*j] - want).abs() > 1e-7 { bad.push(format!("basic column {j} is not a unit column")); } }
                                    if st.c_vec()[*j].abs() > 1e-7 { bad.push(format!("reduced cost of basic column {j} is not zero")); }
                                }
                                if st.b_vec().iter().any(|v| *v < -1e-5) { bad.push("basic solution negative beyond the solver tolerance 1e-5".into()); }
                                for (row, b) in a0.iter().zip(b0.iter()) { if (dotv(row, &x) - b).abs() > 1e-6 { bad.push("basic solution violates the initial equalities".into()); } }
                                // the start tableau must be equivalent to the standard form: every basic solution of the trace satisfies the standard form's own rows
                                for (c, b) in rows.iter() { let n = c.len().min(x.len()); if (dotv(&c[..n], &x[..n]) - b).abs() > 1e-6 * b.abs().max(1.0) { bad.push(format!("basic solution violates a row of the standard form ({:?} = {})", c, b)); break; } }
                                let o = dotv(&c_init, &x[..c_init.len().min(x.len())]);
                                if o > prev_obj + 1e-7 { bad.push(format!("objective got worse: {prev_obj} -> {o}")); }
                                prev_obj = o;
                                let tiny = rows.iter().any(|(_, b)| *b < 0.0 && *b > -1e-5);
                                for bmsg in bad { rep.fail(json!({"prop":"C14","kind":"step-invariant-broken","class": if tiny { "rhs-within-tolerance-of-zero" } else { "unclassified" },"input":text,"step":si,"what":bmsg})); }
                            }
                            // optimality of the final basic solution vs an independent reference: no basic feasible
                            // solution of the standard form may have a strictly better objective
                            let fin = states.last().unwrap();
                            let nvars = fin.c_vec().len();
                            if nvars <= 12 {
                                let mut x = vec![0.0; nvars];
                                for (i, j) in fin.in_basis().iter().enumerate() { x[*j] = fin.b_vec()[i]; }
                                let o = dotv(obj, &x);
                                // a vertex that is feasible beyond doubt (1e-9) must not beat the reached point; infeasibility is judged at the
                                // implementation's own tolerance (1e-5, math_utils NEAR_ZERO_PRECISION)
                                match best_vertex(rows, nvars, obj, 1e-9).or_else(|| best_vertex(rows, nvars, obj, 1e-5)) {
                                    Some((bo, bx)) => { if bo < o - 1e-6 * o.abs().max(1.0) { rep.fail(json!({"prop":"C14","kind":"stopped-at-non-optimal-point","class":"unclassified","input":text,"reached":o,"better_vertex":bx,"its_objective":bo})); } }
                                    None => { rep.fail(json!({"prop":"C14","kind":"optimal-reported-on-infeasible-system","class": if rows.iter().any(|(_, b)| *b < 0.0 && *b > -1e-5) { "rhs-within-tolerance-of-zero" } else { "unclassified" },"input":text})); }
                                }
                                rep.count("c14.optimality_checked");
                            }
                            let mut sc = Vec::new();
                            for (k, (e, l)) in tr.iter().enumerate() { sc.push(format!("(mkStep {} {}%nat {}%nat {})", tab(&states[k]), e, l, tab(&states[k + 1]))); }
                            trace_coq = format!("[{}]", sc.join("; "));
                            result_coq = format!("(ROpt {})", tab(res.result().tableau()));
                        }
                        Err(e) => {
                            let k = match e { rooc::SimplexError::Unbounded => "RUnb", rooc::SimplexError::IterationLimitReached => "RLim", rooc::SimplexError::Other => "ROther" };
                            rep.count(&format!("solve.{k}"));
                            if k == "RUnb" {
                                // the unbounded report must be genuine: re-drive to the tableau where it was raised and check the
                                // improving recession ray it exhibits against the INITIAL equalities
                                let mut t2 = t0.clone();
                                for _ in 0..60 { match t2.step(&[]) { Ok(rooc::StepAction::Pivot { .. }) => {}, _ => break } }
                                let nvars = t2.c_vec().len();
                                let mut genuine = false;
                                for h in 0..nvars {
                                    if t2.in_basis().contains(&h) || !(t2.c_vec()[h] < -1e-5) { continue; }
                                    if t2.a_matrix().iter().all(|row| row[h] <= 1e-5) {
                                        let mut d = vec![0.0; nvars]; d[h] = 1.0;
                                        for (i, j) in t2.in_basis().iter().enumerate() { d[*j] = -t2.a_matrix()[i][h]; }
                                        let ok_rows = a0.iter().all(|row| dotv(row, &d).abs() <= 1e-6);
                                        let ok_sign = d.iter().all(|v| *v >= -1e-6);
                                        let improving = dotv(obj, &d[..obj.len().min(d.len())]) < -1e-9;
                                        let feasible_start = t2.b_vec().iter().all(|v| *v >= -1e-7);
                                        if ok_rows && ok_sign && improving && feasible_start { genuine = true; }
                                    }
                                }
                                if !genuine { rep.fail(json!({"prop":"C14","kind":"unbounded-report-not-genuine","class":"unclassified","input":text})); }
                                rep.count("c14.unbounded_checked");
                            }
                            if k == "RLim" { rep.fail(json!({"prop":"C14","kind":"iteration-limit-on-small-problem","class":"unclassified","input":text})); }
                            // re-drive from the start with the public single-step API to expose the prefix before the error
                            let mut t2 = t0.clone();
                            let mut sc = Vec::new();
                            for _ in 0..60 {
                                let pre = t2.clone();
                                match t2.step(&[]) { Ok(rooc::StepAction::Pivot { entering, leaving, .. }) => sc.push(format!("(mkStep {} {}%nat {}%nat {})", tab(&pre), entering, leaving, tab(&t2))), _ => break }
                            }
                            result_coq = if k == "RUnb" { format!("(RUnbAt {})", tab(&t2)) } else { k.to_string() };
                            trace_coq = format!("[{}]", sc.join("; "));
                        }
                    }
                }
            }
        }
        let line = format!("(mkTCase {} {} {} {} {})", linmodel(m), std_coq, tab_coq, trace_coq, result_coq);
        rep.distinct_hash(&line);
        writeln!(cases, "{line}").unwrap();
        writeln!(inputs, "{text}").unwrap();
        if idx % 211 == 0 { rep.sample(json!({"model": text, "standard_form": std_res.as_ref().map(|s| s.to_string().replace('\n', " | ")).unwrap_or("error".into()), "trace": trace_coq}), 8); }
    }
    rep.add("cases", all.len() as u64);
    rep.write(&format!("{outdir}/report.json"));
}
