//! C12 harness: the text of every compiled Model and LinearModel is a valid program with the same meaning.
//!  (a) Model::to_string()  -> parse + type-check + transform -> linearize; compared with linearize(original)
//!  (b) LinearModel::to_string() -> compile -> LinearModel'; same rows/coefficients/rhs/objective/offset/domains;
//!      LinearModel'.to_string() is the same text
//!  (c) expression trees (arithmetic BinOp / Neg over variables) rendered by Exp's printer: tokens for the Coq tie
use harness::{coqfmt as cq, gens::b, models::*, report::Report, rng::Rng};
use indexmap::IndexMap;
use rooc::model_transformer::{Constraint, Exp, Model};
use rooc::{BinOp, Comparison, LinearModel, Linearizer, OptimizationType, RoocParser, UnOp, VariableType};
use serde_json::json;
use std::io::Write;

fn close(a: f64, c: f64) -> bool { a == c || (a - c).abs() <= 1e-12 * a.abs().max(c.abs()).max(1e-300) }

/// canonical rows: (name, cmp, rhs, sorted (var, coef) with non-zero coef)
fn canon(l: &LinearModel) -> Vec<(String, String, f64, Vec<(String, f64)>)> {
    let mut rows: Vec<_> = l.constraints().iter().map(|c| {
        let mut t: Vec<(String, f64)> = c.coefficients().iter().enumerate().filter(|(_, v)| **v != 0.0).map(|(i, v)| (l.variables()[i].clone(), *v)).collect();
        t.sort_by(|a, c| a.0.cmp(&c.0));
        (c.name(), format!("{}", c.constraint_type()), c.rhs(), t)
    }).collect();
    rows.sort_by(|a, c| format!("{:?}", a).cmp(&format!("{:?}", c)));
    rows
}
/// Differences between a linear model and its re-compilation, each attributed to a narrow class.
/// Classes with a recorded known finding:
///  - zero-column-variable-dropped: a variable whose column and objective coefficient are all zero is missing after re-compilation
///  - domain-retightened: same variable, same kind of domain, the re-compiled interval lies inside the original one
///  - constant-row-renormalised: a row without coefficients that is true was dropped, or one that is false became `0 = 1`
///  - boolean-row-renormalised: a row over a single Boolean variable was dropped (it holds for 0 and 1) or re-spelled with the same truth table
/// anything else is reported with class "unclassified".
fn lin_diff(a: &LinearModel, c: &LinearModel) -> Vec<(String, String)> {
    let mut out: Vec<(String, String)> = Vec::new();
    let un = |what: String| ("unclassified".to_string(), what);
    if a.optimization_type() != c.optimization_type() { out.push(un(format!("direction {} vs {}", a.optimization_type(), c.optimization_type()))); }
    if !close(a.objective_offset(), c.objective_offset()) { out.push(un(format!("objective offset {} vs {}", a.objective_offset(), c.objective_offset()))); }
    let obj = |l: &LinearModel| { let mut t: Vec<(String, f64)> = l.objective().iter().enumerate().filter(|(_, v)| **v != 0.0).map(|(i, v)| (l.variables()[i].clone(), *v)).collect(); t.sort_by(|a, c| a.0.cmp(&c.0)); t };
    let (oa, oc) = (obj(a), obj(c));
    if oa.len() != oc.len() || oa.iter().zip(&oc).any(|(x, y)| x.0 != y.0 || !close(x.1, y.1)) { out.push(un(format!("objective {:?} vs {:?}", oa, oc))); }
    // rows
    let holds = |cmp: &str, rhs: f64| match cmp { "<=" => 0.0 <= rhs, ">=" => 0.0 >= rhs, "=" => rhs == 0.0, "<" => 0.0 < rhs, ">" => 0.0 > rhs, _ => false };
    let row_same = |x: &(String, String, f64, Vec<(String, f64)>), y: &(String, String, f64, Vec<(String, f64)>)| x.0 == y.0 && x.1 == y.1 && close(x.2, y.2) && x.3.len() == y.3.len() && x.3.iter().zip(&y.3).all(|(p, q)| p.0 == q.0 && close(p.1, q.1));
    let (ra, mut rc) = (canon(a), canon(c));
    for x in ra.iter() {
        if let Some(i) = rc.iter().position(|y| row_same(x, y)) { rc.remove(i); continue; }
        if x.3.is_empty() {
            if holds(&x.1, x.2) { out.push(("constant-row-renormalised".into(), format!("true constant row {:?} is dropped", x))); continue; }
            if let Some(i) = rc.iter().position(|y| y.0 == x.0 && y.3.is_empty() && y.1 == "=" && y.2 == 1.0) { rc.remove(i); out.push(("constant-row-renormalised".into(), format!("false constant row {:?} becomes 0 = 1", x))); continue; }
        }
        if x.3.len() == 1 && matches!(a.domain().get(&x.3[0].0).map(|d| *d.get_type()), Some(VariableType::Boolean)) {
            // a row over a single Boolean variable: compare truth tables over {0, 1}
            let tt = |r: &(String, String, f64, Vec<(String, f64)>)| { let k = r.3[0].1; let sat = |v: f64| match r.1.as_str() { "<=" => k * v <= r.2, ">=" => k * v >= r.2, "=" => k * v == r.2, _ => false }; (sat(0.0), sat(1.0)) };
            let t = tt(x);
            if t == (true, true) { out.push(("boolean-row-renormalised".into(), format!("row {:?} holds for both values of the Boolean and is dropped", x))); continue; }
            if t == (false, false) { if let Some(i) = rc.iter().position(|y| y.0 == x.0 && y.3.is_empty() && y.1 == "=" && y.2 == 1.0) { rc.remove(i); out.push(("boolean-row-renormalised".into(), format!("row {:?} holds for neither value of the Boolean and becomes 0 = 1", x))); continue; } }
            if let Some(i) = rc.iter().position(|y| y.0 == x.0 && y.3.len() == 1 && y.3[0].0 == x.3[0].0 && tt(y) == t) { let y = rc.remove(i); out.push(("boolean-row-renormalised".into(), format!("row {:?} is re-read as the equivalent {:?}", x, y))); continue; }
        }
        out.push(un(format!("row {:?} has no counterpart", x)));
    }
    for y in rc.iter() { out.push(un(format!("extra row {:?} after re-compilation", y))); }
    // variables and domains
    let col_zero = |l: &LinearModel, name: &str| { let i = l.variables().iter().position(|v| v == name).unwrap(); l.objective()[i] == 0.0 && l.constraints().iter().all(|r| r.coefficients()[i] == 0.0) };
    for v in a.variables() {
        if !c.variables().contains(v) {
            if col_zero(a, v) { out.push(("zero-column-variable-dropped".into(), format!("`{}` has an all-zero column and is missing after re-compilation", v))); } else { out.push(un(format!("variable `{}` is missing after re-compilation", v))); }
            continue;
        }
        let (ta, tc) = (a.domain()[v].get_type(), c.domain()[v].get_type());
        // structural comparison (Debug), not Display: the rendering itself is what is under test
        if format!("{:?}", ta) == format!("{:?}", tc) { continue; }
        let iv = |t: &VariableType| match t { VariableType::Boolean => (0.0, 1.0, 0), VariableType::IntegerRange(l, h) => (*l as f64, *h as f64, 1), VariableType::Real(l, h) => (*l, *h, 2), VariableType::NonNegativeReal(l, h) => (*l, *h, 2) };
        let ((la, ha, ka), (lc, hc, kc)) = (iv(ta), iv(tc));
        if ka == kc && lc >= la && hc <= ha { out.push(("domain-retightened".into(), format!("`{}`: {:?} becomes {:?}", v, ta, tc))); } else { out.push(un(format!("domain of `{}`: {:?} vs {:?}", v, ta, tc))); }
    }
    for v in c.variables() { if !a.variables().contains(v) { out.push(un(format!("new variable `{}` after re-compilation", v))); } }
    out
}
fn report_diffs(rep: &mut Report, kind: &str, diffs: Vec<(String, String)>, extra: serde_json::Value) {
    let mut seen: Vec<String> = Vec::new();
    for (class, what) in diffs {
        if seen.contains(&class) { continue; }
        seen.push(class.clone());
        let mut v = extra.clone();
        v["prop"] = json!("C12"); v["kind"] = json!(kind); v["class"] = json!(class); v["difference"] = json!(what);
        rep.fail(v);
    }
}

fn compile(text: &str) -> Result<(Model, LinearModel), (String, String)> {
    let p = RoocParser::new(text.to_string());
    if let Err(e) = p.parse() { return Err(("text-does-not-parse".into(), e.to_string_from_source(text).chars().take(300).collect())); }
    if let Err(e) = p.type_check(&vec![], &IndexMap::new()) { return Err(("text-fails-type-check".into(), e.chars().take(300).collect())); }
    let m = p.parse_and_transform(vec![], &IndexMap::new()).map_err(|e| ("text-does-not-transform".to_string(), e.chars().take(300).collect::<String>()))?;
    let l = Linearizer::linearize(m.clone()).map_err(|e| ("text-does-not-linearize".to_string(), format!("{}", e).chars().take(300).collect::<String>()))?;
    Ok((m, l))
}

/// rows of a rendered linear model for the Coq tie: sign pattern of the non-zero coefficients + tokens of the printed left-hand side
fn row_cases(l: &LinearModel, text: &str, rep: &mut Report, out: &mut Vec<(String, String)>) {
    if harness::report::probe_active() { return; }   // the probes of recorded findings carry names the tokeniser of the tie does not read
    let lines: Vec<&str> = text.lines().collect();
    let start = match lines.iter().position(|x| x.trim() == "s.t.") { Some(i) => i + 1, None => return };
    for (k, c) in l.constraints().iter().enumerate() {
        let line = match lines.get(start + k) { Some(x) => x.trim(), None => { rep.fail(json!({"prop":"C12","kind":"linear-text-row-missing","class":"unclassified","text":text})); return; } };
        let body = if c.name().is_empty() { line.to_string() } else { match line.strip_prefix(&format!("{}: ", c.name())) { Some(b) => b.to_string(), None => { rep.fail(json!({"prop":"C12","kind":"linear-text-row-name","class":"unclassified","text":text,"row":line})); continue; } } };
        let cmp = format!(" {} ", c.constraint_type());
        let lhs = match body.rfind(&cmp) { Some(i) => body[..i].to_string(), None => { rep.fail(json!({"prop":"C12","kind":"linear-text-row-shape","class":"unclassified","text":text,"row":line})); continue; } };
        let nz: Vec<(usize, f64)> = c.coefficients().iter().cloned().enumerate().filter(|(_, v)| *v != 0.0).collect();
        if nz.is_empty() { if lhs != "0" { rep.fail(json!({"prop":"C12","kind":"linear-text-empty-row-not-zero","class":"unclassified","row":line})); } continue; }
        let signs: Vec<&str> = nz.iter().map(|(_, v)| if *v < 0.0 { "true" } else { "false" }).collect();
        // tokens: leading "-" is the prefix operator, later "+"/"-" are infix, anything else is the next atom
        let mut toks: Vec<String> = Vec::new(); let mut atoms: Vec<&str> = Vec::new();
        for (j, w) in lhs.split_whitespace().enumerate() {
            match w { "-" if j == 0 => toks.push("PT (TPrefix Neg)".into()), "-" => toks.push("PT (TInfix Sub)".into()), "+" => toks.push("PT (TInfix Add)".into()),
                _ => { toks.push(format!("PT (TAtom {}%nat)", atoms.len())); atoms.push(w); } }
        }
        // each atom must be the magnitude (omitted when 1) glued to the variable name
        let expect: Vec<String> = nz.iter().map(|(i, v)| if v.abs() == 1.0 { l.variables()[*i].clone() } else { format!("{}{}", v.abs(), l.variables()[*i]) }).collect();
        if atoms.len() != expect.len() || atoms.iter().zip(&expect).any(|(a, e)| a != e) { rep.fail(json!({"prop":"C12","kind":"linear-text-term-differs","class":"unclassified","row":line,"expected_terms":expect})); }
        rep.count("rows.rendered"); if nz.len() >= 2 { rep.count("nontrivial.rows_with_two_or_more_terms"); }
        out.push((format!("(CRow [{}] [{}])", signs.join("; "), toks.join("; ")), line.to_string()));
    }
}
thread_local! { static ROWS: std::cell::RefCell<Vec<(String, String)>> = std::cell::RefCell::new(Vec::new()); }

fn check_linear(l: &LinearModel, rep: &mut Report, stream: &str, origin: &str) {
    let text = l.to_string();
    ROWS.with(|r| { let mut v = r.borrow_mut(); if v.len() < 200000 { row_cases(l, &text, rep, &mut v); } });
    match std::panic::catch_unwind(|| compile(&text)) {
        Err(_) => rep.fail(json!({"prop":"C18","kind":"panic","input":text})),
        Ok(Err((kind, err))) => rep.fail(json!({"prop":"C12","kind":format!("linear-{kind}"),"class":"unclassified","stream":stream,"origin":origin,"text":text,"error":err})),
        Ok(Ok((_, l2))) => {
            rep.count(&format!("{stream}.linear_text_compiled"));
            let diffs = lin_diff(l, &l2);
            let t2 = l2.to_string();
            if diffs.is_empty() { rep.count(&format!("{stream}.linear_text_same_model")); }
            // the second rendering differs exactly when the model differs; a text difference with an identical model is its own failure
            if t2 != text && diffs.is_empty() { rep.fail(json!({"prop":"C12","kind":"linear-text-not-a-fixed-point","class":"unclassified","stream":stream,"origin":origin,"text":text,"second":t2})); }
            if t2 == text { rep.count(&format!("{stream}.linear_text_fixed_point")); }
            report_diffs(rep, "linear-text-compiles-to-a-different-model", diffs, json!({"stream":stream,"origin":origin,"text":text,"second_text":t2}));
        }
    }
}

fn check_model(m: &Model, rep: &mut Report, stream: &str) {
    let text = m.to_string();
    let l1 = match std::panic::catch_unwind(|| Linearizer::linearize(m.clone())) { Ok(Ok(l)) => l, Ok(Err(_)) => { rep.count(&format!("{stream}.original_not_linearizable"));
            // the model text must still parse and type-check
            if let Ok(Err((kind, err))) = std::panic::catch_unwind(|| compile(&text)) { if kind != "text-does-not-linearize" { rep.fail(json!({"prop":"C12","kind":format!("model-{kind}"),"class":"unclassified","stream":stream,"text":text,"error":err})); } }
            return; }
        Err(_) => { rep.fail(json!({"prop":"C18","kind":"panic","input":text})); return; } };
    match std::panic::catch_unwind(|| compile(&text)) {
        Err(_) => rep.fail(json!({"prop":"C18","kind":"panic","input":text})),
        Ok(Err((kind, err))) => rep.fail(json!({"prop":"C12","kind":format!("model-{kind}"),"class":"unclassified","stream":stream,"text":text,"error":err})),
        Ok(Ok((m2, l2))) => {
            rep.count(&format!("{stream}.model_text_compiled"));
            // up to auxiliary naming: compare with names first, then without row names
            let diffs = lin_diff(&l1, &l2);
            if diffs.is_empty() { rep.count(&format!("{stream}.model_text_same_linear_model")); }
            let detail = if model_eq(m, &m2).is_ok() { "same-model".to_string() } else { format!("re-read as `{}`", m2.to_string().replace('\n', " | ")) };
            report_diffs(rep, "model-text-compiles-to-a-different-linear-model", diffs, json!({"stream":stream,"text":text,"detail":detail,"linear_of_original":l1.to_string(),"linear_of_text":l2.to_string()}));
        }
    }
    check_linear(&l1, rep, stream, &text);
}

fn normal(e: &Exp) -> Exp {
    let n = |x: &Exp| b(normal(x));
    match e {
        Exp::Number(_) | Exp::Variable(_) => e.clone(),
        Exp::Abs(x) => Exp::Abs(n(x)),
        Exp::Min(xs) => Exp::Min(xs.iter().map(normal).collect()),
        Exp::Max(xs) => Exp::Max(xs.iter().map(normal).collect()),
        Exp::And(xs) => Exp::And(xs.iter().map(normal).collect()),
        Exp::Or(xs) => Exp::Or(xs.iter().map(normal).collect()),
        Exp::Not(x) => Exp::Not(n(x)),
        Exp::Xor(x, y) => Exp::Xor(n(x), n(y)),
        Exp::Implies(x, y) => Exp::Implies(n(x), n(y)),
        Exp::Iff(x, y) => Exp::Iff(n(x), n(y)),
        Exp::UnOp(UnOp::Not, x) => Exp::Not(n(x)),
        Exp::UnOp(op, x) => Exp::UnOp(*op, n(x)),
        Exp::BinOp(BinOp::And, x, y) => Exp::And(vec![normal(x), normal(y)]),
        Exp::BinOp(BinOp::Or, x, y) => Exp::Or(vec![normal(x), normal(y)]),
        Exp::BinOp(BinOp::Xor, x, y) => Exp::Xor(n(x), n(y)),
        Exp::BinOp(BinOp::Implies, x, y) => Exp::Implies(n(x), n(y)),
        Exp::BinOp(BinOp::Iff, x, y) => Exp::Iff(n(x), n(y)),
        Exp::BinOp(op, x, y) => Exp::BinOp(*op, n(x), n(y)),
    }
}

/// independent, fully parenthesised source text of a generated model (the generator's own printer, not rooc's)
fn st(e: &Exp, logic: bool) -> String {
    match e {
        Exp::Number(v) => if logic && *v == 1.0 { "true".into() } else if logic && *v == 0.0 { "false".into() } else if *v < 0.0 { format!("(-{})", -v) } else { format!("{}", v) },
        Exp::Variable(n) => n.clone(),
        Exp::Abs(x) => format!("abs{{ {} }}", st(x, false)),
        Exp::Min(xs) => format!("min{{ {} }}", xs.iter().map(|x| st(x, false)).collect::<Vec<_>>().join(", ")),
        Exp::Max(xs) => format!("max{{ {} }}", xs.iter().map(|x| st(x, false)).collect::<Vec<_>>().join(", ")),
        Exp::And(xs) => if xs.len() == 1 { st(&xs[0], true) } else { format!("({})", xs.iter().map(|x| st(x, true)).collect::<Vec<_>>().join(" and ")) },
        Exp::Or(xs) => if xs.len() == 1 { st(&xs[0], true) } else { format!("({})", xs.iter().map(|x| st(x, true)).collect::<Vec<_>>().join(" or ")) },
        Exp::Not(x) => format!("(not {})", st(x, true)),
        Exp::Xor(x, y) => format!("({} xor {})", st(x, true), st(y, true)),
        Exp::Implies(x, y) => format!("({} implies {})", st(x, true), st(y, true)),
        Exp::Iff(x, y) => format!("({} iff {})", st(x, true), st(y, true)),
        Exp::UnOp(UnOp::Neg, x) => format!("(-({}))", st(x, false)),
        Exp::UnOp(UnOp::Not, x) => format!("(not {})", st(x, true)),
        Exp::BinOp(op, x, y) => format!("({} {} {})", st(x, op.is_logic()), op, st(y, op.is_logic())),
    }
}
fn source_text(m: &Model, d: &[VarDecl]) -> String {
    let obj = match m.objective().objective_type { OptimizationType::Satisfy => "solve".to_string(), ref t => format!("{} {}", t, st(&m.objective().rhs, false)) };
    let cs: Vec<String> = m.constraints().iter().map(|c| { let nm = if c.name().is_empty() { String::new() } else { format!("{}: ", c.name()) };
        if c.is_logic_assertion() { format!("    {}{}", nm, st(c.lhs(), true)) } else { format!("    {}{} {} {}", nm, st(c.lhs(), false), c.constraint_type(), st(c.rhs(), false)) } }).collect();
    let ds: Vec<String> = d.iter().map(|v| format!("    {} as {}", v.name, v.ty)).collect();
    format!("{}\ns.t.\n{}\ndefine\n{}", obj, cs.join("\n"), ds.join("\n"))
}

// ---------- expression trees for the tie with the Coq printer
#[derive(Clone)]
enum T { Leaf(usize), Bin(BinOp, Box<T>, Box<T>), Pre(Box<T>) }
const AOPS: &[BinOp] = &[BinOp::Add, BinOp::Sub, BinOp::Mul, BinOp::Div];
const NAMES: &[&str] = &["a", "b", "c", "d", "e", "f", "g", "h", "k", "m", "n", "p", "q", "r", "s", "t"];
fn gen_tree(r: &mut Rng, depth: usize, next: &mut usize) -> T {
    if depth == 0 || r.chance(1, 4) || *next >= NAMES.len() - 1 { let i = *next; *next += 1; return T::Leaf(i.min(NAMES.len() - 1)); }
    if r.chance(1, 7) { return T::Pre(Box::new(gen_tree(r, depth - 1, next))); }
    let op = AOPS[r.below(4)];
    let l = gen_tree(r, depth - 1, next);
    let rr = gen_tree(r, depth - 1, next);
    T::Bin(op, Box::new(l), Box::new(rr))
}
fn to_exp(t: &T) -> Exp { match t { T::Leaf(i) => var(NAMES[*i]), T::Bin(op, l, r) => bin(*op, to_exp(l), to_exp(r)), T::Pre(u) => Exp::UnOp(UnOp::Neg, b(to_exp(u))) } }
fn coq_tree(t: &T) -> String {
    match t { T::Leaf(i) => format!("(Leaf {}%nat)", i), T::Bin(op, l, r) => format!("(Bin {} {} {})", cq::binop(op), coq_tree(l), coq_tree(r)), T::Pre(u) => format!("(Pre Neg {})", coq_tree(u)) }
}
fn tokenize(s: &str) -> Option<String> {
    let cs: Vec<char> = s.chars().collect();
    let mut out: Vec<String> = Vec::new();
    let mut i = 0;
    while i < cs.len() {
        let c = cs[i];
        if c == ' ' { i += 1; continue; }
        if c == '(' { out.push("PLP".into()); i += 1; continue; }
        if c == ')' { out.push("PRP".into()); i += 1; continue; }
        if c == '-' { let binary = i + 1 < cs.len() && cs[i + 1] == ' '; out.push(if binary { "PT (TInfix Sub)".into() } else { "PT (TPrefix Neg)".into() }); i += 1; continue; }
        if c == '+' { out.push("PT (TInfix Add)".into()); i += 1; continue; }
        if c == '*' { out.push("PT (TInfix Mul)".into()); i += 1; continue; }
        if c == '/' { out.push("PT (TInfix Div)".into()); i += 1; continue; }
        if c.is_alphabetic() { out.push(format!("PT (TAtom {}%nat)", NAMES.iter().position(|n| n.chars().next() == Some(c))?)); i += 1; continue; }
        return None;
    }
    Some(format!("[{}]", out.join("; ")))
}

fn wide_linear(r: &mut Rng) -> LinearModel {
    let pool = ["x", "y", "x_1", "x_2", "y_1_2", "x_A", "z_A_2", "$abs_0_positive", "$max_1", "w", "k_10", "set_A__2"];
    let nv = 1 + r.below(5);
    let mut names: Vec<&str> = Vec::new();
    while names.len() < nv { let c = pool[r.below(pool.len())]; if !names.contains(&c) { names.push(c); } }
    let mut l = LinearModel::new();
    for nm in names.iter() {
        let ty = match r.below(9) {
            0 => VariableType::Boolean,
            1 => { let lo = r.range(-20, 5) as i32; VariableType::IntegerRange(lo, lo + r.range(0, 30) as i32) }
            2 => VariableType::Real(f64::NEG_INFINITY, f64::INFINITY),
            3 => VariableType::Real(f64::NEG_INFINITY, mag(r)),
            4 => VariableType::Real(-mag(r), f64::INFINITY),
            5 => { let lo = -mag(r); VariableType::Real(lo, lo + mag(r)) }
            6 => VariableType::NonNegativeReal(0.0, f64::INFINITY),
            7 => if r.chance(1, 2) { VariableType::NonNegativeReal(0.0, mag(r)) } else { VariableType::NonNegativeReal(mag(r), f64::INFINITY) },
            _ => { let lo = mag(r); VariableType::NonNegativeReal(lo, lo + mag(r)) }
        };
        l.add_variable(nm, ty);
    }
    let nr = r.below(5);
    for i in 0..nr {
        let coefs: Vec<f64> = (0..nv).map(|_| coef(r)).collect();
        let cmp = match r.below(3) { 0 => Comparison::LessOrEqual, 1 => Comparison::GreaterOrEqual, _ => Comparison::Equal };
        let rhs = if r.chance(1, 4) { 0.0 } else { coef(r) };
        match r.below(4) { 0 => l.add_named_constraint(coefs, cmp, rhs, &format!("c{i}")), 1 => l.add_named_constraint(coefs, cmp, rhs, &format!("row_{i}")), _ => l.add_constraint(coefs, cmp, rhs) }
    }
    let obj: Vec<f64> = (0..nv).map(|_| coef(r)).collect();
    l.set_objective(obj, match r.below(3) { 0 => OptimizationType::Min, 1 => OptimizationType::Max, _ => OptimizationType::Satisfy });
    let (o, t, _, c, v, d) = l.into_parts();
    let off = if r.chance(1, 2) { 0.0 } else { coef(r) };
    let o = if matches!(t, OptimizationType::Satisfy) { o.iter().map(|_| 0.0).collect() } else { o };
    LinearModel::new_from_parts(o, t.clone(), if matches!(t, OptimizationType::Satisfy) { 1.0 } else { off }, c, v, d)
}
fn mag(r: &mut Rng) -> f64 { let k = r.range(-9, 9) as i32; let m = *r.pick(&[1.0, 2.0, 2.5, 7.0, 1.25, 3.0]); m * 10f64.powi(k) }
fn coef(r: &mut Rng) -> f64 { match r.below(8) { 0 => 0.0, 1 => 1.0, 2 => -1.0, _ => { let v = mag(r); if r.chance(1, 2) { -v } else { v } } } }

fn main() {
    let args: Vec<String> = std::env::args().collect();
    let seed: u64 = args[1].parse().unwrap(); let n: usize = args[2].parse().unwrap(); let outdir = &args[3];
    let mut r = Rng::new(seed ^ 0xC12);
    let mut rep = Report::default();
    let mut cases = std::io::BufWriter::new(std::fs::File::create(format!("{outdir}/cases.txt")).unwrap());
    let mut inputs = std::io::BufWriter::new(std::fs::File::create(format!("{outdir}/inputs.txt")).unwrap());
    std::panic::set_hook(Box::new(|_| {}));
    // (c) expression trees through Exp's printer
    let l = |i: usize| Box::new(T::Leaf(i));
    let mut trees: Vec<T> = Vec::new();
    for o1 in AOPS { for o2 in AOPS {
        trees.push(T::Bin(*o1, l(0), Box::new(T::Bin(*o2, l(1), l(2)))));
        trees.push(T::Bin(*o1, Box::new(T::Bin(*o2, l(0), l(1))), l(2)));
        for o3 in AOPS { trees.push(T::Bin(*o1, l(0), Box::new(T::Bin(*o2, l(1), Box::new(T::Bin(*o3, l(2), l(3))))))); trees.push(T::Bin(*o1, l(0), Box::new(T::Bin(*o2, Box::new(T::Bin(*o3, l(1), l(2))), l(3))))); }
    } }
    for o in AOPS { trees.push(T::Pre(Box::new(T::Bin(*o, l(0), l(1))))); trees.push(T::Bin(*o, Box::new(T::Pre(l(0))), l(1))); trees.push(T::Bin(*o, l(0), Box::new(T::Pre(l(1))))); trees.push(T::Bin(*o, l(0), Box::new(T::Pre(Box::new(T::Pre(l(1))))))); }
    for i in 0..n { let mut next = 0; trees.push(gen_tree(&mut r, 2 + i % 4, &mut next)); }
    for (idx, t) in trees.iter().enumerate() {
        let e = to_exp(t);
        let text = e.to_string();
        match tokenize(&text) {
            Some(toks) => { let line = format!("(CExp (mkC11 {} {}))", coq_tree(t), toks); rep.distinct_hash(&line); writeln!(cases, "{line}").unwrap(); writeln!(inputs, "{text}").unwrap(); rep.count("trees.rendered"); if text.contains('(') { rep.count("nontrivial.keeps_some_parentheses"); } if idx % 89 == 0 { rep.sample(json!({"rendered": text}), 8); } }
            None => rep.count("trees.untokenizable"),
        }
        // and as a whole model: objective + a constraint (non-linear products are rejected by the linearizer on both sides alike)
        let d: Vec<VarDecl> = NAMES.iter().map(|nm| VarDecl { name: nm.to_string(), ty: VariableType::Real(-2.0, 3.0), used: true }).collect();
        let m = build_model(OptimizationType::Min, e.clone(), vec![Constraint::new(e.clone(), Comparison::LessOrEqual, num(1.0), "".into()), Constraint::new(NAMES.iter().fold(num(0.0), |acc, nm| bin(BinOp::Add, acc, var(nm))), Comparison::GreaterOrEqual, num(-100.0), "".into())], &d);
        // compare the re-read expression structurally (this is the grouping check on the implementation itself)
        let mt = m.to_string();
        match RoocParser::new(mt.clone()).parse_and_transform(vec![], &IndexMap::new()) {
            Ok(m2) => {
                rep.count("trees.model_reparsed");
                // meaning = value at every assignment (regrouping a + (b + c) as (a + b) + c is not a change of meaning)
                let mut bad: Option<(IndexMap<String, f64>, Option<f64>, Option<f64>)> = None;
                for k in 0..6u64 {
                    let mut env = IndexMap::new();
                    for (j, nm) in NAMES.iter().enumerate() { env.insert(nm.to_string(), [2.0, 3.0, 5.0, 7.0, -1.5, 0.5, 11.0, -4.0][((j as u64 * 3 + k * 5 + (j as u64) * k) % 8) as usize]); }
                    let (v1, v2) = (harness::eval::eval(&m.objective().rhs, &env), harness::eval::eval(&m2.objective().rhs, &env));
                    let same = match (v1, v2) { (Some(x), Some(y)) => (x.is_nan() && y.is_nan()) || x == y || (x - y).abs() <= 1e-9 * x.abs().max(y.abs()).max(1.0), (None, None) => true, _ => false };
                    if !same { bad = Some((env, v1, v2)); break; }
                }
                if harness::eval::exp_eq(&m.objective().rhs, &m2.objective().rhs) { rep.count("trees.reparsed_identical"); } else { rep.count("trees.reparsed_regrouped"); }
                if let Some((env, v1, v2)) = bad { rep.fail(json!({"prop":"C12","kind":"model-text-changes-expression-value","class":"unclassified","expression":text,"tree":coq_tree(t),"reparsed":m2.objective().rhs.to_string(),"at":env,"values":[v1, v2]})); }
            }
            Err(e) => rep.fail(json!({"prop":"C12","kind":"model-text-does-not-parse","class":"unclassified","text":mt,"error":e.chars().take(300).collect::<String>()})),
        }
    }
    // (a)+(b) generated source models
    let gens = [(ModelGen { logic: false, arith: true }, "arith"), (ModelGen { logic: true, arith: true }, "mixed"), (ModelGen { logic: true, arith: false }, "logic"), (ModelGen { logic: false, arith: false }, "affine")];
    for i in 0..n { let (g, s) = &gens[i % 4]; let (m, mut d) = g.model(&mut r);
        // a variable counts as used exactly when an expression mentions it (what the transformer records)
        // shapes the text front-end produces: logic operators as their own constructors, `solve` with the constant objective 1
        let sat = matches!(m.objective().objective_type, OptimizationType::Satisfy);
        let cs: Vec<Constraint> = m.constraints().iter().map(|c| if c.is_logic_assertion() { Constraint::new_logic_assertion(normal(c.lhs()), c.name().to_string()) } else { Constraint::new(normal(c.lhs()), c.constraint_type().clone(), normal(c.rhs()), c.name().to_string()) }).collect();
        let obj = if sat { num(1.0) } else { normal(&m.objective().rhs) };
        let mut used: Vec<String> = Vec::new();
        harness::eval::vars_of(&obj, &mut used);
        for c in cs.iter() { harness::eval::vars_of(c.lhs(), &mut used); harness::eval::vars_of(c.rhs(), &mut used); }
        for v in d.iter_mut() { v.used = used.contains(&v.name); }
        let m = build_model(m.objective().objective_type.clone(), obj, cs, &d);
        // C12 quantifies over COMPILED models of programs: send the generated model through the real front-end as source text
        // written by the generator's own printer, and keep it only if that program parses, type-checks and transforms
        let src = source_text(&m, &d);
        let front = RoocParser::new(src.clone());
        if front.parse().is_err() { rep.count(&format!("{s}.generated_source_does_not_parse")); continue; }
        if front.type_check(&vec![], &IndexMap::new()).is_err() { rep.count(&format!("{s}.generated_source_ill_typed")); continue; }
        let m = match front.parse_and_transform(vec![], &IndexMap::new()) { Ok(m) => m, Err(_) => { rep.count(&format!("{s}.generated_source_does_not_transform")); continue; } };
        rep.count(&format!("{s}.programs"));
        if i % 101 == 0 { rep.sample(json!({"model_text": m.to_string()}), 12); } check_model(&m, &mut rep, s); }
    // (a'') the witnesses of the recorded findings F65-F69 about generated names and empty aggregates, each under the class of its finding
    let probes: [(&str, &str); 5] = [
        ("negative-index-in-generated-name", "max sum(i in 0..3) { x_{i - 1} }\ns.t.\n    x_{i - 1} <= 3 for i in 0..3\ndefine\n    x_{i - 1} as NonNegativeReal for i in 0..3"),
        ("free-form-string-index-in-generated-name", "max sum(s in S) { x_s }\ns.t.\n    x_s <= 3 for s in S\nwhere\n    let S = [\"a b\", \"1a\", \"c-d\"]\ndefine\n    x_s as NonNegativeReal for s in S"),
        ("empty-scoped-logic-aggregate", "max x\ns.t.\n    x <= 3\n    any(i in 0..0) { b_i } or c\n    all(i in 0..0) { b_i }\ndefine\n    x as NonNegativeReal\n    c as Boolean\n    b_i as Boolean for i in 0..2"),
        ("node-named-like-a-builtin-constant", "max sum(v in nodes(G)) { x_v }\ns.t.\n    lim_v: x_v <= 3 for v in nodes(G)\nwhere\n    let G = Graph { PI -> [ Q ], Q -> [ PI ] }\ndefine\n    x_v as NonNegativeReal for v in nodes(G)"),
        ("fractional-index-in-generated-name", "max sum(i in 1..3) { x_{i / 2} }\ns.t.\n    x_{i / 2} <= 3 for i in 1..3\ndefine\n    x_{i / 2} as NonNegativeReal for i in 1..3"),
    ];
    for (cls, src) in probes.iter() {
        let front = RoocParser::new(src.to_string());
        match front.parse_and_transform(vec![], &IndexMap::new()) {
            Ok(m) => { rep.count("probe.programs"); harness::report::set_probe_class(Some(cls)); check_model(&m, &mut rep, "probe"); harness::report::set_probe_class(None); }
            Err(_) => rep.count("probe.source_does_not_compile"),
        }
    }
    // (b') linear models with wide coefficient magnitudes, generated names, every domain form
    for i in 0..n { let lm = wide_linear(&mut r); if i % 101 == 0 { rep.sample(json!({"linear_text": lm.to_string()}), 16); } 
        // the direct model's text must compile to the same model; the fixed point is then asked of that compiled model
        let t0 = lm.to_string();
        match std::panic::catch_unwind(|| compile(&t0)) {
            Err(_) => rep.fail(json!({"prop":"C18","kind":"panic","input":t0})),
            Ok(Err((kind, err))) => rep.fail(json!({"prop":"C12","kind":format!("linear-{kind}"),"class":"unclassified","stream":"wide","origin":"direct","text":t0,"error":err})),
            Ok(Ok((_, l1))) => { rep.count("wide.direct_text_compiled"); let diffs = lin_diff(&lm, &l1); if diffs.is_empty() { rep.count("wide.direct_text_same_model"); }
                report_diffs(&mut rep, "linear-text-compiles-to-a-different-model", diffs, json!({"stream":"wide","origin":"direct","text":t0,"second_text":l1.to_string()}));
                check_linear(&l1, &mut rep, "wide", &t0); }
        }
    }
    ROWS.with(|rw| { for (line, input) in rw.borrow().iter() { if rep.distinct_hash_new(line) { writeln!(cases, "{line}").unwrap(); writeln!(inputs, "{input}").unwrap(); } } });
    rep.add("cases", trees.len() as u64);
    rep.write(&format!("{outdir}/report.json"));
}
