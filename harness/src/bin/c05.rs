//! Solver harness (C03/C04/C05/C15/C20).  Two modes:
//!   gen <seed> <n> <out.jsonl> [kind]    : writes one JSON model per line (plus its Gallina term)
//!   worker <models.jsonl> <i> <k>        : runs every built-in solver on model i.. starting at solver k of model i;
//!                                          prints one line `R <i> <k> <json>` per call, flushed (the Python driver
//!                                          watches for hangs and restarts the worker past the offending call)
use harness::{models::*, rng::Rng};
use rooc::{Comparison, LinearModel, OptimizationType, VariableType, LpSolution, SolverError};
use serde_json::{json, Value};
use std::io::{BufRead, Write};

fn fs(v: f64) -> String { format!("{:?}", v) }

fn model_json(i: usize, m: &LinearModel, kind: &str) -> Value {
    let types: Vec<Value> = m.variables().iter().map(|v| match m.domain().get(v).unwrap().get_type() {
        VariableType::Boolean => json!({"k":"Bool"}),
        VariableType::IntegerRange(a, b) => json!({"k":"Int","lo":a,"hi":b}),
        VariableType::NonNegativeReal(a, b) => json!({"k":"NN","lo":fs(*a),"hi":fs(*b)}),
        VariableType::Real(a, b) => json!({"k":"Real","lo":fs(*a),"hi":fs(*b)}),
    }).collect();
    let rows: Vec<Value> = m.constraints().iter().map(|r| json!({"name": r.name(), "a": r.coefficients().iter().map(|c| fs(*c)).collect::<Vec<_>>(),
        "cmp": match r.constraint_type() { Comparison::LessOrEqual => "le", Comparison::GreaterOrEqual => "ge", Comparison::Equal => "eq", Comparison::Less => "lt", Comparison::Greater => "gt" }, "b": fs(r.rhs())})).collect();
    let dom_order: Vec<String> = m.domain().keys().cloned().collect();
    json!({"id": i, "kind": kind, "vars": m.variables(), "types": types, "rows": rows, "domain_order": dom_order, "obj": m.objective().iter().map(|c| fs(*c)).collect::<Vec<_>>(),
        "dir": match m.optimization_type() { OptimizationType::Min => "min", OptimizationType::Max => "max", OptimizationType::Satisfy => "sat" },
        "offset": fs(m.objective_offset()), "coq": linmodel(m), "text": m.to_string().replace('\n', " | ")})
}

fn model_from_json(v: &Value) -> LinearModel {
    let pf = |x: &Value| -> f64 { let s = x.as_str().unwrap(); match s { "inf" => f64::INFINITY, "-inf" => f64::NEG_INFINITY, "NaN" => f64::NAN, _ => s.parse().unwrap() } };
    let mut m = LinearModel::new();
    for (name, t) in v["vars"].as_array().unwrap().iter().zip(v["types"].as_array().unwrap()) {
        let ty = match t["k"].as_str().unwrap() {
            "Bool" => VariableType::Boolean,
            "Int" => VariableType::IntegerRange(t["lo"].as_i64().unwrap() as i32, t["hi"].as_i64().unwrap() as i32),
            "NN" => VariableType::NonNegativeReal(pf(&t["lo"]), pf(&t["hi"])),
            _ => VariableType::Real(pf(&t["lo"]), pf(&t["hi"])),
        };
        m.add_variable(name.as_str().unwrap(), ty);
    }
    for r in v["rows"].as_array().unwrap() {
        let a: Vec<f64> = r["a"].as_array().unwrap().iter().map(pf).collect();
        let cmp = match r["cmp"].as_str().unwrap() { "le" => Comparison::LessOrEqual, "ge" => Comparison::GreaterOrEqual, "eq" => Comparison::Equal, "lt" => Comparison::Less, _ => Comparison::Greater };
        let name = r["name"].as_str().unwrap();
        if name.is_empty() { m.add_constraint(a, cmp, pf(&r["b"])); } else { m.add_named_constraint(a, cmp, pf(&r["b"]), name); }
    }
    let obj: Vec<f64> = v["obj"].as_array().unwrap().iter().map(pf).collect();
    let dir = match v["dir"].as_str().unwrap() { "min" => OptimizationType::Min, "max" => OptimizationType::Max, _ => OptimizationType::Satisfy };
    m.set_objective(obj, dir);
    let off = v.get("offset").map(pf).unwrap_or(0.0);
    // the domain map in the order the model was generated with (a compiled model lists its columns alphabetically and its
    // domain in declaration order: the two orders are independent)
    let order: Vec<String> = v.get("domain_order").and_then(|o| o.as_array()).map(|a| a.iter().map(|x| x.as_str().unwrap().to_string()).collect()).unwrap_or_default();
    let reorder = !order.is_empty() && order.iter().ne(m.variables().iter());
    if off != 0.0 || reorder {
        let (o, t, _, c, vs, d) = m.into_parts();
        let d = if reorder { let mut nd = indexmap::IndexMap::new(); for k in order.iter() { nd.insert(k.clone(), d.get(k).unwrap().clone()); } nd } else { d };
        return LinearModel::new_from_parts(o, t, off, c, vs, d);
    }
    m
}

fn gen_model(r: &mut Rng, kind: &str) -> LinearModel {
    let mut m = LinearModel::new();
    let nv = if kind == "bigint" { 4 + r.below(3) } else { 1 + r.below(if kind == "shadow" { 2 } else { 4 }) };
    // now and then the variables carry names of the kind the linearizer gives its auxiliaries: a solver must report them like any other
    let names = if r.chance(1, 5) { ["$abs_0", "y", "$max_0_select_1", "w", "$or_2", "v", "$sl"] } else { ["x", "y", "z", "w", "u", "v", "t"] };
    let pin = (kind == "int" || kind == "mixed" || kind == "bigint") && nv >= 2 && r.chance(1, 6);
    for i in 0..nv {
        let t = if pin && i == 0 { VariableType::IntegerRange(1, 1) } else { match kind {
            "lp" | "shadow" => match r.below(6) {
                0 | 1 => VariableType::NonNegativeReal(0.0, f64::INFINITY),
                2 => VariableType::Real(f64::NEG_INFINITY, f64::INFINITY),
                3 => if r.chance(1, 2) { VariableType::NonNegativeReal(0.0, r.range(1, 6) as f64) } else { let lo = r.range(1, 3) as f64 * 0.5; VariableType::NonNegativeReal(lo, if r.chance(1, 2) { f64::INFINITY } else { lo + r.range(0, 4) as f64 }) },
                4 => VariableType::Real(r.range(-4, 0) as f64, r.range(1, 5) as f64),
                _ => VariableType::Real(f64::NEG_INFINITY, r.range(-1, 4) as f64),
            },
            "bigint" => { let lo = r.range(-2, 0) as i32; VariableType::IntegerRange(lo, lo + r.range(2, 6) as i32) }
            "int" => match r.below(3) { 0 => VariableType::Boolean, _ => { let lo = r.range(-2, 1) as i32; VariableType::IntegerRange(lo, lo + r.range(0, 4) as i32) } },
            _ => match r.below(6) { 0 => VariableType::Boolean, 1 | 2 => { let lo = r.range(-2, 1) as i32; VariableType::IntegerRange(lo, lo + r.range(0, 4) as i32) }, 3 => if r.chance(1, 2) { VariableType::NonNegativeReal(0.0, r.range(1, 6) as f64) } else { let lo = r.range(1, 3) as f64 * 0.5; VariableType::NonNegativeReal(lo, if r.chance(1, 2) { f64::INFINITY } else { lo + r.range(0, 4) as f64 }) }, 4 => VariableType::Real(r.range(-3, 0) as f64, r.range(1, 4) as f64), _ => VariableType::NonNegativeReal(0.0, f64::INFINITY) },
        } };
        m.add_variable(names[i], t);
    }
    let coefs = [0.0, 1.0, -1.0, 2.0, -2.0, 1.0, 3.0, 0.5, -3.0];
    let nr = if kind == "shadow" { 1 + r.below(3) } else { r.below(5) };
    let suffixy = kind == "shadow" && r.chance(1, 6);
    for j in 0..nr {
        let c: Vec<f64> = (0..nv).map(|_| *r.pick(&coefs)).collect();
        let cmp = match r.below(4) { 0 | 1 => Comparison::LessOrEqual, 2 => Comparison::GreaterOrEqual, _ => Comparison::Equal };
        let rhs = *r.pick(&[0.0, 1.0, 2.0, -1.0, 4.0, -2.0, 3.0, 6.0, 5.0, -4.0]);
        if (kind == "shadow" && !r.chance(1, 4)) || (kind != "shadow" && r.chance(1, 3)) {   // shadow models: unnamed rows interspersed with named ones
            // now and then names of the shape the linearizer's de-duplication produces (`cap`, `cap__2`, `cap__3`) next to each other
            let nm = if kind == "shadow" && suffixy { if j == 0 { "cap".to_string() } else { format!("cap__{}", j + 1) } } else { format!("r{j}") };
            m.add_named_constraint(c, cmp, rhs, &nm); } else { m.add_constraint(c, cmp, rhs); }
    }
    let mut obj: Vec<f64> = (0..nv).map(|_| *r.pick(&coefs)).collect();
    // integer models: now and then the first variable is pinned to 1 and carries a large objective coefficient, so the optimum
    // is a large base value plus small integer steps - where a hidden relative tolerance of the search would show
    if pin { obj[0] = *r.pick(&[30000.0, 100000.0, -50000.0]); }
    // bigint (C15): a third of the models have a small objective (|value| < 1 is where a relative gap and an absolute one part)
    let small = kind == "bigint" && r.chance(1, 3);
    if small { for c in obj.iter_mut() { *c *= 0.03125; } }
    // shadow models: costs of very different magnitudes (prices of 1e4 and of 1e-5 are prices too)
    if kind == "shadow" && r.chance(1, 4) { let f = *r.pick(&[10000.0, 0.00005, 25000.0, 0.000125]); for c in obj.iter_mut() { *c *= f; } }
    let dir = match r.below(if kind == "int" || kind == "mixed" || kind == "bigint" { 7 } else { 6 }) { 0 | 1 | 2 => OptimizationType::Min, 3 | 4 | 5 => OptimizationType::Max, _ => OptimizationType::Satisfy };
    m.set_objective(obj, dir);
    let rev = nv >= 2 && r.chance(1, 5);
    let flip = |d: indexmap::IndexMap<String, rooc::model_transformer::DomainVariable>| -> indexmap::IndexMap<String, rooc::model_transformer::DomainVariable> {
        if rev { d.into_iter().rev().collect() } else { d } };
    // a constant term in the objective (what `min 2x + 10` compiles to), for both directions
    if !matches!(m.optimization_type(), OptimizationType::Satisfy) && r.chance(1, 2) {
        let (o, t, _, c, v, d) = m.into_parts();
        let d = flip(d);
        return LinearModel::new_from_parts(o, t, if small { *r.pick(&[0.25, -0.5, 0.125, -0.25, 0.0625]) } else if kind == "bigint" { *r.pick(&[10.0, -3.0, 0.5, 7.0, -12.5, -30.0, 40.0, -50.0, 25.0]) } else { *r.pick(&[10.0, -3.0, 0.5, 7.0, -12.5]) }, c, v, d);
    }
    if rev { let (o, t, off, c, v, d) = m.into_parts(); return LinearModel::new_from_parts(o, t, off, c, v, flip(d)); }
    m
}

/// fixed corpus: the witnesses of the recorded solver findings (so that each reproduces on every run) and a few classics
fn corpus() -> Vec<LinearModel> {
    let free = VariableType::Real(f64::NEG_INFINITY, f64::INFINITY);
    let nn = VariableType::NonNegativeReal(0.0, f64::INFINITY);
    let mut out = Vec::new();
    // F18: microlp does not terminate (free variables, optimal face)
    let mut m = LinearModel::new();
    m.add_variable("x0", free); m.add_variable("x1", free);
    m.add_constraint(vec![2.0, 1.0], Comparison::GreaterOrEqual, 2.0);
    m.set_objective(vec![2.0, 1.0], OptimizationType::Min);
    out.push(m);
    // F19: microlp reports Unbounded on a bounded model with an unused free variable
    let mut m = LinearModel::new();
    m.add_variable("x0", free); m.add_variable("x1", VariableType::Real(0.0, 4.0)); m.add_variable("x2", nn);
    m.add_constraint(vec![0.0, 2.0, -1.0], Comparison::GreaterOrEqual, -3.0);
    m.set_objective(vec![0.0, -1.0, -1.0], OptimizationType::Min);
    out.push(m);
    // F20: Clarabel DualInfeasible => Unbounded although the primal is infeasible
    let mut m = LinearModel::new();
    m.add_variable("x0", nn); m.add_variable("x1", nn);
    m.add_constraint(vec![0.0, 0.0], Comparison::GreaterOrEqual, 4.0);
    m.add_constraint(vec![-2.0, 0.0], Comparison::LessOrEqual, 0.0);
    m.set_objective(vec![-1.0, 1.0], OptimizationType::Max);
    out.push(m);
    // F56: a coefficient below the tableau's 1e-5 tolerance was read as zero when looking for unit columns (two scalings)
    for (tiny, cap) in [(0.000001, 1000000.0), (0.000004, 100000.0)] {
        let mut m = LinearModel::new();
        m.add_variable("x", nn.clone()); m.add_variable("y", nn.clone());
        m.add_named_constraint(vec![tiny, 1.0], Comparison::LessOrEqual, 1.0, "a");
        m.add_named_constraint(vec![1.0, 0.0], Comparison::LessOrEqual, cap, "b");
        m.set_objective(vec![1.0, 1.0], OptimizationType::Max);
        out.push(m);
    }
    // F70 / F19c: microlp answers this continuous model (one free variable, one bounded above only) with NaN values
    // through the MILP entry point and with Infeasible through the real one; the optimum is -9.5
    let mut m = LinearModel::new();
    m.add_variable("x", free); m.add_variable("y", VariableType::Real(f64::NEG_INFINITY, 1.0));
    m.add_constraint(vec![3.0, -2.0], Comparison::LessOrEqual, 2.0);
    m.add_constraint(vec![0.5, 1.0], Comparison::LessOrEqual, 2.0);
    m.add_constraint(vec![-1.0, 3.0], Comparison::Equal, 3.0);
    m.add_constraint(vec![2.0, 1.0], Comparison::LessOrEqual, 3.0);
    m.set_objective(vec![-1.0, 3.0], OptimizationType::Min);
    let (o, t, _, c, v, d) = m.into_parts();
    out.push(LinearModel::new_from_parts(o, t, -12.5, c, v, d));
    // models without variables: decided by their constant rows (true and false ones, each relation)
    for (cmp, rhs) in [(Comparison::GreaterOrEqual, 1.0), (Comparison::GreaterOrEqual, -1.0), (Comparison::LessOrEqual, 1.0), (Comparison::LessOrEqual, -1.0), (Comparison::Equal, 0.0), (Comparison::Equal, 1.0)] {
        let mut m = LinearModel::new();
        m.add_named_constraint(vec![], cmp, rhs, "k");
        m.set_objective(vec![], OptimizationType::Min);
        let (o, t, _, c, v, d) = m.into_parts();
        out.push(LinearModel::new_from_parts(o, t, 7.0, c, v, d));
    }
    // F57: a model that is infeasible by less than the tableau's 1e-5 tolerance
    let mut m = LinearModel::new();
    m.add_variable("x", nn.clone()); m.add_variable("y", nn.clone());
    m.add_named_constraint(vec![1.0, 1.0], Comparison::LessOrEqual, 1.0, "a");
    m.add_named_constraint(vec![1.0, 1.0], Comparison::GreaterOrEqual, 1.000005, "b");
    m.set_objective(vec![1.0, 2.0], OptimizationType::Min);
    out.push(m);
    out
}

fn sol_json<T: Copy + Into<f64> + Clone + serde::Serialize + serde::de::DeserializeOwned + std::fmt::Display>(s: &LpSolution<T>) -> Value {
    let assign: Vec<Value> = s.assignment().iter().map(|a| json!([a.name, fs(a.value.into())])).collect();
    let cons: Vec<Value> = s.constraints().iter().map(|(k, v)| json!([k, fs(*v)])).collect();
    let sh: Vec<Value> = s.shadow_prices().iter().map(|(k, v)| json!([k, fs(*v)])).collect();
    json!({"status":"ok","label": format!("{:?}", s.status()), "value": fs(s.value()), "assign": assign, "constraints": cons, "shadow": sh})
}
fn err_json(e: &SolverError) -> Value {
    let kind = match e {
        SolverError::Infeasible => "Infeasible", SolverError::Unbounded => "Unbounded", SolverError::LimitReached => "LimitReached",
        SolverError::InvalidDomain { .. } => "InvalidDomain", SolverError::UnimplementedOptimizationType { .. } => "UnimplementedOpt",
        SolverError::UnavailableComparison { .. } => "UnavailableCmp", SolverError::DidNotSolve => "DidNotSolve", SolverError::TooLarge { .. } => "TooLarge",
        SolverError::Other(_) => "Other",
    };
    json!({"status":"err","kind":kind,"message": e.to_string()})
}

pub const SOLVERS: &[&str] = &["milp", "auto", "microlp_real", "clarabel", "slow_simplex"];

fn run_solver(m: &LinearModel, k: usize) -> Value {
    let r = std::panic::catch_unwind(|| match k {
        0 => rooc::solve_milp_lp_problem(m).map(|s| sol_json(&s)).unwrap_or_else(|e| err_json(&e)),
        1 => rooc::auto_solver(m).map(|s| sol_json(&s)).unwrap_or_else(|e| err_json(&e)),
        2 => rooc::solve_real_lp_problem_micro_lp(m).map(|s| sol_json(&s)).unwrap_or_else(|e| err_json(&e)),
        3 => rooc::solve_real_lp_problem_clarabel(m).map(|s| sol_json(&s)).unwrap_or_else(|e| err_json(&e)),
        _ => rooc::solve_real_lp_problem_slow_simplex(m, 1000).map(|s| sol_json(&s)).unwrap_or_else(|e| err_json(&e)),
    });
    r.unwrap_or_else(|_| json!({"status":"panic"}))
}

pub fn limit_options() -> Vec<(Option<std::time::Duration>, Option<f64>)> {
    use std::time::Duration;
    let tls = [None, Some(Duration::from_nanos(0)), Some(Duration::from_nanos(1000)), Some(Duration::from_micros(30)), Some(Duration::from_secs(5))];
    let gaps = [None, Some(0.0), Some(1e-9), Some(0.2), Some(0.5), Some(1.0), Some(3.0), Some(10.0), Some(-1.0), Some(f64::NAN), Some(f64::INFINITY)];
    let mut out = Vec::new();
    for t in tls.iter() { for g in gaps.iter() { out.push((*t, *g)); } }
    out
}

fn main() {
    let args: Vec<String> = std::env::args().collect();
    match args[1].as_str() {
        "gen" => {
            let seed: u64 = args[2].parse().unwrap(); let n: usize = args[3].parse().unwrap();
            let kind = args.get(5).map(|s| s.as_str()).unwrap_or("all");
            let mut r = Rng::new(seed ^ 0xC05);
            let mut f = std::io::BufWriter::new(std::fs::File::create(&args[4]).unwrap());
            let mut idx = 0;
            if kind == "all" {
                for m in corpus() { writeln!(f, "{}", model_json(idx, &m, "lp")).unwrap(); idx += 1; }
            }
            if kind == "bigint" {
                // knapsacks whose constant term shrinks (or flips) the reported value: where a relative gap measured with and
                // without the constant part ways (the witness of finding F47 and two variations)
                for (off, dirmax) in [(-70.0, true), (-45.0, true), (60.0, false)] {
                    let mut m = LinearModel::new();
                    for nm in ["a", "b", "c", "d"] { m.add_variable(nm, VariableType::Boolean); }
                    if dirmax { m.add_constraint(vec![23.0, 32.0, 25.0, 18.0], Comparison::LessOrEqual, 49.0); m.set_objective(vec![51.0, 50.0, 37.0, 27.0], OptimizationType::Max); }
                    else { m.add_constraint(vec![23.0, 32.0, 25.0, 18.0], Comparison::GreaterOrEqual, 40.0); m.set_objective(vec![-51.0, -50.0, -37.0, -27.0], OptimizationType::Max); }
                    let (o, t, _, c, v, d) = m.into_parts();
                    let m = LinearModel::new_from_parts(o, t, off, c, v, d);
                    writeln!(f, "{}", model_json(idx, &m, "bigint")).unwrap(); idx += 1;
                }
            }
            for i in 0..n {
                let k = if kind == "all" { ["lp", "lp", "int", "mixed"][i % 4] } else { kind };
                let m = gen_model(&mut r, k);
                writeln!(f, "{}", model_json(idx, &m, k)).unwrap(); idx += 1;
            }
        }
        "worker" => {
            std::panic::set_hook(Box::new(|_| {}));
            let start_i: usize = args[3].parse().unwrap(); let start_k: usize = args[4].parse().unwrap();
            let file = std::io::BufReader::new(std::fs::File::open(&args[2]).unwrap());
            let out = std::io::stdout();
            for (i, line) in file.lines().enumerate() {
                if i < start_i { continue; }
                let v: Value = serde_json::from_str(&line.unwrap()).unwrap();
                let m = model_from_json(&v);
                for k in 0..SOLVERS.len() {
                    if i == start_i && k < start_k { continue; }
                    { let mut o = out.lock(); writeln!(o, "S {} {}", i, k).unwrap(); o.flush().unwrap(); }
                    let res = run_solver(&m, k);
                    let mut o = out.lock(); writeln!(o, "R {} {} {}", i, k, res).unwrap(); o.flush().unwrap();
                }
            }
            println!("DONE");
        }
        "limits" => {
            // C15: every MILP model x every (time limit, MIP gap) setting through solve_milp_lp_problem_with;
            // the raw microlp status is read back through the guarded hook
            std::panic::set_hook(Box::new(|_| {}));
            let start_i: usize = args[3].parse().unwrap(); let start_k: usize = args[4].parse().unwrap();
            let file = std::io::BufReader::new(std::fs::File::open(&args[2]).unwrap());
            let out = std::io::stdout();
            let opts = limit_options();
            for (i, line) in file.lines().enumerate() {
                if i < start_i { continue; }
                let v: Value = serde_json::from_str(&line.unwrap()).unwrap();
                let m = model_from_json(&v);
                for (k, (tl, gap)) in opts.iter().enumerate() {
                    if i == start_i && k < start_k { continue; }
                    { let mut o = out.lock(); writeln!(o, "S {} {}", i, k).unwrap(); o.flush().unwrap(); }
                    let options = rooc::MilpOptions { mip_gap: *gap, time_limit: *tl };
                    let _ = rooc::milp_verif_hooks::take_raw_status();
                    // the two entry points of the property, alternating: the direct call and the builder's Microlp wrapper
                    let via_wrapper = (i + k) % 2 == 1;
                    let res = std::panic::catch_unwind(|| if via_wrapper {
                            let mut w = rooc::Microlp::new();
                            if let Some(g) = gap { w = w.with_mip_gap(*g); }
                            if let Some(t) = tl { w = w.with_time_limit(*t); }
                            rooc::Solver::solve(&w, &m).map(|s| sol_json(&s)).unwrap_or_else(|e| err_json(&e))
                        } else { rooc::solve_milp_lp_problem_with(&m, &options).map(|s| sol_json(&s)).unwrap_or_else(|e| err_json(&e)) })
                        .unwrap_or_else(|_| json!({"status":"panic"}));
                    let raw = rooc::milp_verif_hooks::take_raw_status();
                    let raw_bound = rooc::milp_verif_hooks::take_raw_bound();
                    let mut res = res; res["raw"] = json!(raw);
                    // the bound rooc compares with: microlp's proven bound plus the model's constant term (same f64 sum as in the code)
                    res["bound"] = json!(raw_bound.filter(|b| b.is_finite()).map(|b| fs(b + m.objective_offset())));
                    res["time_limit_ns"] = json!(tl.map(|d| d.as_nanos() as u64)); res["gap"] = json!(gap.map(fs)); res["entry"] = json!(if via_wrapper { "Microlp wrapper" } else { "solve_milp_lp_problem_with" });
                    let mut o = out.lock(); writeln!(o, "R {} {} {}", i, k, res).unwrap(); o.flush().unwrap();
                }
            }
            println!("DONE");
        }
        _ => panic!("unknown mode"),
    }
}
