//! C09 harness: operator sequences as source text (every alias spelling, keyword-prefixed identifiers, optional
//! prefixes) through RoocParser -> transform; prints (tokens, compiled objective expression) for the model's Pratt
//! parser; evaluates the implicit-multiplication / alias / identifier claims directly on the implementation.
use harness::{coqfmt as cq, eval::*, gens::b, models::*, report::Report, rng::Rng};
use indexmap::IndexMap;
use rooc::model_transformer::Exp;
use rooc::{BinOp, RoocParser, UnOp};
use serde_json::json;
use std::io::Write;

const OPS: &[(BinOp, &[&str])] = &[
    (BinOp::Add, &["+"]), (BinOp::Sub, &["-"]), (BinOp::Mul, &["*"]), (BinOp::Div, &["/"]),
    (BinOp::And, &["and", "&&"]), (BinOp::Or, &["or", "||"]), (BinOp::Xor, &["xor"]),
    (BinOp::Implies, &["implies", "->"]), (BinOp::Iff, &["iff", "<->"]),
];
const ATOMS: &[&str] = &["a", "b", "c", "d", "e", "f", "g", "h", "andy", "orb", "notx", "inx", "xorz", "iffy", "impliesq", "trueish", "minx", "asb", "forz"];

fn atom_name(i: usize) -> String { ATOMS[i % ATOMS.len()].to_string() }
fn coq_atom_name(i: usize) -> String { atom_name(i) }

fn compile_objective(text: &str, names: &[String]) -> Result<Exp, String> {
    let src = format!("min {}\ns.t.\n    1 >= 0\ndefine\n    {} as Boolean", text, names.join(", "));
    let p = RoocParser::new(src);
    let m = p.parse_and_transform(vec![], &IndexMap::new())?;
    Ok(m.objective().rhs.clone())
}

fn main() {
    let args: Vec<String> = std::env::args().collect();
    let seed: u64 = args[1].parse().unwrap();
    let n: usize = args[2].parse().unwrap();
    let exhaustive: bool = args[3] == "1";
    let outdir = &args[4];
    let mut r = Rng::new(seed ^ 0xC09);
    let mut rep = Report::default();
    let mut cases = std::io::BufWriter::new(std::fs::File::create(format!("{outdir}/cases.txt")).unwrap());
    let mut inputs = std::io::BufWriter::new(std::fs::File::create(format!("{outdir}/inputs.txt")).unwrap());
    // sequences: k operators, k+1 atoms, optional prefix before each atom
    let mut seqs: Vec<(Vec<usize>, Vec<Option<UnOp>>)> = Vec::new();
    if exhaustive {
        for o1 in 0..9 { for o2 in 0..9 { for o3 in 0..9 { seqs.push((vec![o1, o2, o3], vec![None; 4])); } } }
        for o1 in 0..9 { for o2 in 0..9 { for pm in 0..27 {
            let pf: Vec<Option<UnOp>> = (0..3).map(|j| match (pm / 3usize.pow(j)) % 3 { 0 => None, 1 => Some(UnOp::Neg), _ => Some(UnOp::Not) }).collect();
            seqs.push((vec![o1, o2], pf));
        } } }
    } else {
        for o1 in 0..9 { for o2 in 0..9 { seqs.push((vec![o1, o2], vec![None; 3])); } }
    }
    for _ in 0..n {
        let k = 1 + r.below(9);
        let ops: Vec<usize> = (0..k).map(|_| r.below(9)).collect();
        let pf: Vec<Option<UnOp>> = (0..=k).map(|_| match r.below(5) { 0 => Some(UnOp::Neg), 1 => Some(UnOp::Not), _ => None }).collect();
        seqs.push((ops, pf));
    }
    for (idx, (ops, pf)) in seqs.iter().enumerate() {
        let k = ops.len();
        let base = r.below(ATOMS.len());
        let names: Vec<String> = (0..=k).map(|j| atom_name(base + j)).collect();
        let mut text = String::new();
        let mut toks: Vec<String> = Vec::new();
        for j in 0..=k {
            if let Some(u) = pf[j] {
                match u { UnOp::Neg => { text.push('-'); toks.push("TPrefix Neg".into()); }, UnOp::Not => { text.push_str(if r.chance(1, 2) { "not " } else { "!" }); toks.push("TPrefix UNot".into()); } }
            }
            text.push_str(&names[j]);
            toks.push(format!("TAtom {}%nat", j));
            if j < k {
                let (op, sp) = &OPS[ops[j]];
                let s = sp[r.below(sp.len())];
                text.push(' '); text.push_str(s); text.push(' ');
                toks.push(format!("TInfix {}", cq::binop(op)));
            }
        }
        rep.count(&format!("len.{}", k));
        let mut uniq = names.clone(); uniq.sort(); uniq.dedup();
        match compile_objective(&text, &uniq) {
            Ok(e) => {
                // rename the atoms to positional names v0.. so the model's tree can be compared structurally
                let line = format!("(mkC9 [{}] [{}] {})", toks.join("; "), names.iter().map(|s| cq::string(s)).collect::<Vec<_>>().join("; "), cq::exp(&e));
                rep.distinct_hash(&line);
                writeln!(cases, "{line}").unwrap();
                writeln!(inputs, "{text}").unwrap();
                rep.count("parsed");
                if k >= 2 { rep.count("nontrivial.two_or_more_operators"); }
                if idx % 499 == 0 { rep.sample(json!({"text": text, "compiled": e.to_string()}), 10); }
            }
            Err(msg) => { rep.count("rejected_by_type_checker_or_parser"); if rep.samples.len() < 3 { rep.sample(json!({"text": text, "rejected": msg.chars().take(160).collect::<String>()}), 3); } }
        }
    }
    // ---- lexer-level sentences of the property, evaluated on the implementation
    let v = |s: &str| var(s); let nmb = |x: f64| num(x);
    let mul = |a: Exp, c: Exp| bin(BinOp::Mul, a, c);
    let checks: Vec<(&str, Vec<&str>, Exp)> = vec![
        ("2x", vec!["x"], mul(nmb(2.0), v("x"))),
        ("a / 2x", vec!["a", "x"], bin(BinOp::Div, v("a"), mul(nmb(2.0), v("x")))),
        ("-2x", vec!["x"], Exp::UnOp(UnOp::Neg, b(mul(nmb(2.0), v("x"))))),
        ("2(x + 1)", vec!["x"], mul(nmb(2.0), bin(BinOp::Add, v("x"), nmb(1.0)))),
        ("a - 2(x + 1)", vec!["a", "x"], bin(BinOp::Sub, v("a"), mul(nmb(2.0), bin(BinOp::Add, v("x"), nmb(1.0))))),
        ("(a)(b)c", vec!["a", "b", "c"], mul(mul(v("a"), v("b")), v("c"))),
        ("a / (a)(b)c", vec!["a", "b", "c"], bin(BinOp::Div, v("a"), mul(mul(v("a"), v("b")), v("c")))),
        ("a && b || !c", vec!["a", "b", "c"], Exp::Or(vec![Exp::And(vec![v("a"), v("b")]), Exp::Not(b(v("c")))])),
        ("a and b or not c", vec!["a", "b", "c"], Exp::Or(vec![Exp::And(vec![v("a"), v("b")]), Exp::Not(b(v("c")))])),
        ("a -> b <-> c", vec!["a", "b", "c"], Exp::Implies(b(v("a")), b(Exp::Iff(b(v("b")), b(v("c")))))),
        ("a implies b iff c", vec!["a", "b", "c"], Exp::Implies(b(v("a")), b(Exp::Iff(b(v("b")), b(v("c")))))),
        ("a <-> b -> c", vec!["a", "b", "c"], Exp::Implies(b(Exp::Iff(b(v("a")), b(v("b")))), b(v("c")))),
        ("andy and orb", vec!["andy", "orb"], Exp::And(vec![v("andy"), v("orb")])),
        ("notx or not inx", vec!["notx", "inx"], Exp::Or(vec![v("notx"), Exp::Not(b(v("inx")))])),
        ("a - b - c", vec!["a", "b", "c"], bin(BinOp::Sub, bin(BinOp::Sub, v("a"), v("b")), v("c"))),
        ("a / b * c", vec!["a", "b", "c"], mul(bin(BinOp::Div, v("a"), v("b")), v("c"))),
        ("-a * b", vec!["a", "b"], mul(Exp::UnOp(UnOp::Neg, b(v("a"))), v("b"))),
        ("not a and b", vec!["a", "b"], Exp::And(vec![Exp::Not(b(v("a"))), v("b")])),
        ("a xor b or c and d", vec!["a", "b", "c", "d"], Exp::Or(vec![Exp::Xor(b(v("a")), b(v("b"))), Exp::And(vec![v("c"), v("d")])])),
        // and binds tighter than xor, xor tighter than or: every adjacent pair, both orders
        ("a xor b and c", vec!["a", "b", "c"], Exp::Xor(b(v("a")), b(Exp::And(vec![v("b"), v("c")])))),
        ("a and b xor c", vec!["a", "b", "c"], Exp::Xor(b(Exp::And(vec![v("a"), v("b")])), b(v("c")))),
        ("a && b xor c", vec!["a", "b", "c"], Exp::Xor(b(Exp::And(vec![v("a"), v("b")])), b(v("c")))),
        ("a or b xor c", vec!["a", "b", "c"], Exp::Or(vec![v("a"), Exp::Xor(b(v("b")), b(v("c")))])),
        ("a xor b || c", vec!["a", "b", "c"], Exp::Or(vec![Exp::Xor(b(v("a")), b(v("b"))), v("c")])),
        ("a / 2 * 4", vec!["a"], mul(bin(BinOp::Div, v("a"), nmb(2.0)), nmb(4.0))),
        ("12 / 2 * a", vec!["a"], mul(bin(BinOp::Div, nmb(12.0), nmb(2.0)), v("a"))),
        ("a * 4 / 2", vec!["a"], bin(BinOp::Div, mul(v("a"), nmb(4.0)), nmb(2.0))),
    ];
    // a number written directly against an identifier is an implicit product whatever the identifier starts with
    // (there is no exponent notation in the language: `2e1` is 2 * e1)
    let mut owned0: Vec<(String, Vec<String>, Exp)> = Vec::new();
    for id in ["e1", "E2", "e", "e_1", "ex", "e10", "E", "f1", "d2", "x1", "inf", "e1e2"] {
        for (t, val) in [("2", 2.0), ("2.5", 2.5), ("10", 10.0), ("0.5", 0.5)] {
            owned0.push((format!("{t}{id}"), vec![id.to_string()], mul(nmb(val), v(id))));
            owned0.push((format!("b + {t}{id}"), vec![id.to_string(), "b".into()], bin(BinOp::Add, v("b"), mul(nmb(val), v(id)))));
        }
    }
    // identifiers that merely start with a keyword: followed by a letter, a digit or an underscore they are one name
    let mut owned: Vec<(String, Vec<String>, Exp)> = Vec::new();
    for kw in ["and", "or", "not", "xor", "implies", "iff", "true", "false", "in", "as", "for", "min", "max", "where", "define", "let", "solve"] {
        for suffix in ["_x", "1", "q", "_1", "_and"] {
            let id = format!("{kw}{suffix}");
            owned.push((format!("{id} or b"), vec![id.clone(), "b".into()], Exp::Or(vec![v(&id), v("b")])));
            owned.push((format!("b and not {id}"), vec![id.clone(), "b".into()], Exp::And(vec![v("b"), Exp::Not(b(v(&id)))])));
        }
    }
    for (text, names, expect) in owned0.iter().chain(owned.iter()) {
        rep.count("sentences.checked");
        match compile_objective(text, names) {
            Ok(e) => if !exp_eq(&e, expect) { rep.fail(json!({"prop":"C09","kind":"documented-grouping-not-produced","class":"unclassified","input":text,"compiled":e.to_string(),"expected":expect.to_string()})); },
            Err(msg) => rep.fail(json!({"prop":"C09","kind":"well-formed-expression-rejected","class":"unclassified","input":text,"message":msg.chars().take(200).collect::<String>()})),
        }
    }
    for (text, names, expect) in checks {
        let names: Vec<String> = names.iter().map(|s| s.to_string()).collect();
        rep.count("sentences.checked");
        match compile_objective(text, &names) {
            Ok(e) => if !exp_eq(&e, &expect) { rep.fail(json!({"prop":"C09","kind":"documented-grouping-not-produced","class":"unclassified","input":text,"compiled":e.to_string(),"expected":expect.to_string()})); },
            Err(msg) => rep.fail(json!({"prop":"C09","kind":"well-formed-expression-rejected","class":"unclassified","input":text,"message":msg.chars().take(200).collect::<String>()})),
        }
    }
    rep.add("cases", seqs.len() as u64);
    rep.write(&format!("{outdir}/report.json"));
}
