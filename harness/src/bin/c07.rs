//! C07 harness: bound inference through the guarded hook (box, flags, bounds_of on probe expressions),
//! for several step limits; prints correspondence cases and evaluates soundness on the implementation.
use harness::{coqfmt as cq, eval::*, models::*, report::Report, rng::Rng};
use indexmap::IndexMap;
use rooc::model_transformer::{Constraint, Exp};
use rooc::VariableType;
use serde_json::json;
use std::io::Write;

fn b(lo: f64, hi: f64) -> String { format!("(mkB {} {})", cq::xq(lo), cq::xq(hi)) }

fn main() {
    let args: Vec<String> = std::env::args().collect();
    let seed: u64 = args[1].parse().unwrap();
    let n: usize = args[2].parse().unwrap();
    let max_points: usize = args[3].parse().unwrap();
    let outdir = &args[4];
    let mut r = Rng::new(seed ^ 0xC07);
    let mut rep = Report::default();
    let mut cases = std::io::BufWriter::new(std::fs::File::create(format!("{outdir}/cases.txt")).unwrap());
    let mut inputs = std::io::BufWriter::new(std::fs::File::create(format!("{outdir}/inputs.txt")).unwrap());
    let gens = [ModelGen { logic: false, arith: true }, ModelGen { logic: true, arith: true }, ModelGen { logic: false, arith: false }];
    for i in 0..n {
        let g = &gens[i % 3];
        let (m, decls) = g.model(&mut r);
        // probes: the constraint sides and a few fresh expressions
        let mut probes: Vec<Exp> = Vec::new();
        for c in m.constraints() { probes.push(c.lhs().clone()); probes.push(c.rhs().clone()); }
        probes.push(m.objective().rhs.clone());
        for _ in 0..2 { probes.push(g.arith(&mut r, &decls, 2)); }
        let steps: Option<usize> = match i % 5 { 0 => Some(0), 1 => Some(1 + r.below(3)), 2 => Some(5 + r.below(20)), _ => None };
        let an = rooc::bounds_verif_hooks::analyze(m.domain(), m.constraints(), steps, &probes);
        let huge = an.variable_bounds.iter().any(|(_, lo, hi)| (lo.is_finite() && lo.abs() > 1e12) || (hi.is_finite() && hi.abs() > 1e12) || *lo == f64::INFINITY || *hi == f64::NEG_INFINITY);
        let text = format!("steps={:?} | {}", steps, model_text(&m).replace('\n', " | "));
        rep.count(&format!("steps.{}", match steps { None => "default".to_string(), Some(s) => if s == 0 { "0".into() } else if s < 5 { "1-4".into() } else { "5-24".into() } }));
        if an.reached_iteration_limit { rep.count("flag.reached_iteration_limit"); }
        if an.detected_infeasible { rep.count("flag.detected_infeasible"); }
        let replay = !(huge || (steps.is_none() && an.reached_iteration_limit));
        if replay {
            let dom: Vec<(String, VariableType)> = m.domain().iter().map(|(k, v)| (k.clone(), *v.get_type())).collect();
            let cs: Vec<Constraint> = m.constraints().clone();
            let line = format!("(mkBCase {} {} ({}) {} {} {} {} {})",
                cq::list(&dom, |(k, t)| format!("({}, {})", cq::string(k), vtype(t))),
                cq::list(&cs, constraint),
                match steps { Some(s) => format!("Z.to_nat {}", s), None => "default_max_steps".to_string() },
                cq::list(&probes, cq::exp),
                cq::list(&an.variable_bounds, |(k, lo, hi)| format!("({}, {})", cq::string(k), b(*lo, *hi))),
                cq::boolean(an.reached_iteration_limit), cq::boolean(an.detected_infeasible),
                cq::list(&an.probes, |(lo, hi)| b(*lo, *hi)));
            rep.distinct_hash(&line);
            writeln!(cases, "{line}").unwrap();
            writeln!(inputs, "{text}").unwrap();
        } else { rep.count("stream.diverging_propagation(oracle-only)"); }
        let tightened = an.variable_bounds.iter().any(|(k, lo, hi)| { let t = m.domain().get(k).unwrap().get_type(); let (dl, dh) = match t { VariableType::Boolean => (0.0, 1.0), VariableType::IntegerRange(a, b) => (*a as f64, *b as f64), VariableType::NonNegativeReal(a, b) | VariableType::Real(a, b) => (*a, *b) }; *lo > dl || *hi < dh });
        if tightened { rep.count("nontrivial.box_tightened"); }
        // ---- the property on the implementation: feasible points lie in the box; values lie in bounds_of
        let declared: Vec<String> = decls.iter().filter(|d| d.used).map(|d| d.name.clone()).collect();
        let grids: Vec<Vec<f64>> = decls.iter().filter(|d| d.used).map(|d| grid_for(&d.ty)).collect();
        let total: usize = grids.iter().map(|g| g.len()).product();
        for k in 0..max_points.min(total) {
            let mut code = if total <= max_points { k } else { r.below(total) };
            let mut env = IndexMap::new();
            for (j, name) in declared.iter().enumerate() { let g = &grids[j]; env.insert(name.clone(), g[code % g.len()]); code /= g.len(); }
            rep.count("points.evaluated");
            let tol = 1e-7;
            if source_feasible(&m, &env) == Some(true) {
                rep.count("points.feasible");
                for (k2, lo, hi) in &an.variable_bounds {
                    if let Some(v) = env.get(k2) { if *v < lo - tol || *v > hi + tol {
                        rep.fail(json!({"prop":"C07","kind":"feasible-point-outside-derived-box","class":"unclassified","input": text, "assignment": env, "variable": k2, "box": [lo, hi]}));
                    } }
                }
            }
            // bounds_of soundness at points inside the box
            let inside = an.variable_bounds.iter().all(|(k2, lo, hi)| env.get(k2).map_or(true, |v| *v >= *lo && *v <= *hi));
            if inside {
                for (p, (lo, hi)) in probes.iter().zip(an.probes.iter()) {
                    if let Some(v) = eval(p, &env) { if v.is_finite() && (v < lo - tol || v > hi + tol) {
                        rep.fail(json!({"prop":"C07","kind":"value-outside-bounds_of","class":"unclassified","input": text, "assignment": env, "expression": p.to_string(), "value": v, "bounds": [lo, hi]}));
                    } rep.count("points.probe_checked"); }
                }
            }
        }
        if i % 97 == 0 { rep.sample(json!({"model": text, "box": an.variable_bounds.iter().map(|(k, lo, hi)| format!("{k} in [{lo}, {hi}]")).collect::<Vec<_>>(), "limit": an.reached_iteration_limit, "infeasible": an.detected_infeasible}), 10); }
    }
    rep.add("cases", n as u64);
    rep.write(&format!("{outdir}/report.json"));
}
