//! C17 harness: linear models through LinearModel::to_lp_format; one JSON per line {text, coq, lp}.
use harness::{models::*, rng::Rng};
use rooc::{Comparison, LinearModel, OptimizationType, VariableType};
use serde_json::json;
use std::io::Write;

fn gen_model(r: &mut Rng) -> LinearModel {
    let mut m = LinearModel::new();
    let nv = 1 + r.below(4);
    let names = ["x", "y", "z", "w", "$abs_0", "x_1", "$max_0_select_1"];
    for i in 0..nv {
        let t = match r.below(9) {
            0 => VariableType::Boolean,
            1 => { let lo = r.range(-3, 2) as i32; VariableType::IntegerRange(lo, lo + r.range(0, 6) as i32) }
            2 => VariableType::NonNegativeReal(0.0, f64::INFINITY),
            3 => VariableType::Real(f64::NEG_INFINITY, f64::INFINITY),
            4 => VariableType::NonNegativeReal(0.0, r.range(1, 6) as f64 * 0.5),
            5 => VariableType::Real(r.range(-4, 0) as f64 * 0.25, r.range(1, 5) as f64),
            6 => VariableType::Real(f64::NEG_INFINITY, r.range(-1, 4) as f64),
            7 => VariableType::Real(r.range(-3, 3) as f64, f64::INFINITY),
            _ if r.below(4) == 0 => VariableType::Real(-1e20, 2e19),
            _ => VariableType::NonNegativeReal(r.range(1, 3) as f64 * 0.5, f64::INFINITY),
        };
        let k = (i + r.below(3)) % names.len();
        let name = if m.variables().iter().any(|v| v == names[k]) { names[i] } else { names[k] };
        if m.variables().iter().any(|v| v == name) { continue; }
        m.add_variable(name, t);
    }
    let nv = m.variables().len();
    // whole numbers beyond the 64-bit integers now and then (big-M constants of that size are ordinary in compiled models)
    let big = r.below(6) == 0;
    let coefs: &[f64] = if big { &[0.0, 1.0, -1.0, 2.0, 1e20, -3e19, 0.5, 9.3e18, -1.0, 1e-7, 1000000.0, 1.5e22] } else { &[0.0, 1.0, -1.0, 2.0, -2.5, 1.0, 0.5, 3.0, -1.0, 1e-7, 1000000.0, 0.000125] };
    let nr = r.below(5);
    for j in 0..nr {
        let c: Vec<f64> = (0..nv).map(|_| *r.pick(coefs)).collect();
        let cmp = match r.below(5) { 0 | 1 => Comparison::LessOrEqual, 2 => Comparison::GreaterOrEqual, 3 => Comparison::Equal, _ => Comparison::Less };
        let rhs = if big && r.below(3) == 0 { *r.pick(&[1e30, -1e19, 2e19]) } else { *r.pick(&[0.0, 1.0, 2.5, -1.0, 4.0, -2.0, 1e-7, 123456.0, -0.5]) };
        let has_cap = m.constraints().iter().any(|c| c.name() == "cap");
        // user names of the generated form c<k>, for any k up to the number of rows: before AND after the unnamed row they clash with
        // ... and the names the exporter falls back to when c<k> is taken (c<k>_, c<k>__)
        let ck = format!("c{}{}", 1 + r.below(nr + 1), ["", "", "_", "__"][r.below(4)]);
        let ck_free = !m.constraints().iter().any(|c| c.name() == ck);
        match r.below(6) { 4 | 5 if ck_free => m.add_named_constraint(c, cmp, rhs, &ck), 0 if !m.constraints().iter().any(|k| k.name() == format!("c{}", j + 2)) => m.add_named_constraint(c, cmp, rhs, &format!("c{}", j + 2)), 1 if !has_cap => m.add_named_constraint(c, cmp, rhs, "cap"), 2 => m.add_named_constraint(c, cmp, rhs, &format!("r{j}")), _ => m.add_constraint(c, cmp, rhs) }
    }
    let obj: Vec<f64> = (0..nv).map(|_| *r.pick(coefs)).collect();
    let dir = match r.below(5) { 0 | 1 => OptimizationType::Min, 2 | 3 => OptimizationType::Max, _ => OptimizationType::Satisfy };
    m.set_objective(obj, dir);
    m
}

fn main() {
    let args: Vec<String> = std::env::args().collect();
    let seed: u64 = args[1].parse().unwrap(); let n: usize = args[2].parse().unwrap();
    let mut r = Rng::new(seed ^ 0xC17);
    let mut f = std::io::BufWriter::new(std::fs::File::create(&args[3]).unwrap());
    let mut all: Vec<LinearModel> = Vec::new();
    // corpus: generated-name collision (F11), zero rows, offset
    let mut m = LinearModel::new();
    m.add_variable("x", VariableType::NonNegativeReal(0.0, f64::INFINITY)); m.add_variable("y", VariableType::Boolean);
    m.add_named_constraint(vec![1.0, 1.0], Comparison::LessOrEqual, 3.0, "c2");
    m.add_constraint(vec![1.0, -1.0], Comparison::GreaterOrEqual, 0.0);
    m.add_constraint(vec![0.0, 0.0], Comparison::LessOrEqual, 5.0);
    m.set_objective(vec![0.0, 0.0], OptimizationType::Max);
    all.push(m);
    for _ in 0..n { all.push(gen_model(&mut r)); }
    for (i, m) in all.iter().enumerate() {
        // the objective offset is only reachable through compilation; emulate with new_from_parts
        let off = if i % 3 == 0 { 0.0 } else { *r.pick(&[2.5, -1.0, 7.0, -0.125]) };
        let (obj, dir, _, cons, vars, dom) = m.clone().into_parts();
        let m2 = LinearModel::new_from_parts(obj, dir, off, cons, vars, dom);
        writeln!(f, "{}", json!({"id": i, "text": m2.to_string().replace('\n', " | "), "coq": linmodel(&m2), "lp": m2.to_lp_format()})).unwrap();
    }
}
