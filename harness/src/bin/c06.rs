//! C06 harness: data-driven constructs expand exactly.
//! A generator of typed programs over generated data in an AST that mirrors coq/Model/Expand.v; three renderings:
//!   - the data-driven source text (what the user writes),
//!   - the hand-unrolled source text produced by this file's own evaluator (independent of rooc),
//!   - the Gallina term for the Coq reference expander.
//! Compared: (oracle) rooc(data-driven) vs rooc(unrolled) as linear models, row for row; (tie) rooc's compiled Model
//! vs Model.Expand.expand_prog evaluated in Coq.
use harness::{coqfmt as cq, models::{constraint as cq_constraint, vtype as cq_vtype}, report::Report, rng::Rng};
use indexmap::IndexMap;
use rooc::{LinearModel, Linearizer, RoocParser};
use serde_json::json;
use std::io::Write;

#[derive(Clone, Debug)]
enum DVal { Num(f64), Str(String), List(Vec<DVal>), Tuple(Vec<DVal>), Node(String, Vec<(String, String, Option<f64>)>), Graph(Vec<(String, Vec<(String, String, Option<f64>)>)>) }
#[derive(Clone, Debug)]
enum IEx { Num(f64), Var(String), Bin(char, Box<IEx>, Box<IEx>), At(Box<IEx>, Box<IEx>), Len(Box<IEx>), Range(Box<IEx>, Box<IEx>, bool), Enumerate(Box<IEx>), Nodes(Box<IEx>), Edges(Box<IEx>), NeighEdges(Box<IEx>), SetFn(u8, Box<IEx>, Box<IEx>) }
#[derive(Clone, Debug)]
enum Pat { Single(String), Tuple(Vec<String>) }
#[derive(Clone, Copy, Debug, PartialEq)]
enum AK { Sum, Prod, Min, Max, Avg, All, Any, Xor }
#[derive(Clone, Debug)]
enum PExp { Num(f64), Val(IEx), Dec(String), Comp(String, Vec<IEx>), Bin(&'static str, Box<PExp>, Box<PExp>), Neg(Box<PExp>), Not(Box<PExp>), Abs(Box<PExp>), Block(AK, Vec<PExp>), Scoped(AK, Vec<(Pat, IEx)>, Box<PExp>) }
#[derive(Clone, Debug)]
struct PCon { name: String, idx: Vec<IEx>, lhs: PExp, cmp: &'static str, rhs: PExp, assertion: bool, iters: Vec<(Pat, IEx)> }
#[derive(Clone, Debug)]
enum PType { Bool, Real(Option<IEx>, Option<IEx>), NonNeg(Option<IEx>, Option<IEx>), IntRange(IEx, IEx) }
#[derive(Clone, Debug)]
struct PDecl { vars: Vec<(String, Vec<IEx>)>, ty: PType, iters: Vec<(Pat, IEx)> }
struct Prog { env: Vec<(String, DVal)>, dir: &'static str, obj: PExp, cons: Vec<PCon>, decls: Vec<PDecl> }
type Env = Vec<(String, DVal)>;

// ---------------------------------------------------------------- helpers to build ASTs
fn v(n: &str) -> IEx { IEx::Var(n.into()) }
fn num(x: f64) -> IEx { IEx::Num(x) }
fn len(a: IEx) -> IEx { IEx::Len(Box::new(a)) }
fn at(a: IEx, i: IEx) -> IEx { IEx::At(Box::new(a), Box::new(i)) }
fn ib(op: char, a: IEx, c: IEx) -> IEx { IEx::Bin(op, Box::new(a), Box::new(c)) }
fn range(a: IEx, c: IEx, incl: bool) -> IEx { IEx::Range(Box::new(a), Box::new(c), incl) }
fn pb(op: &'static str, a: PExp, c: PExp) -> PExp { PExp::Bin(op, Box::new(a), Box::new(c)) }
fn comp(n: &str, idx: Vec<IEx>) -> PExp { PExp::Comp(n.into(), idx) }
fn one(n: &str) -> Pat { Pat::Single(n.into()) }
fn tup(ns: &[&str]) -> Pat { Pat::Tuple(ns.iter().map(|s| s.to_string()).collect()) }

// ---------------------------------------------------------------- this file's own evaluator (the reference unroller)
fn lookup<'a>(env: &'a Env, n: &str) -> Option<&'a DVal> { env.iter().rev().find(|(k, _)| k == n).map(|(_, v)| v) }
fn whole(x: f64) -> Option<i64> { if x.fract() == 0.0 && x.abs() < 1e15 { Some(x as i64) } else { None } }
fn edge_val(e: &(String, String, Option<f64>)) -> DVal { DVal::Tuple(vec![DVal::Str(e.0.clone()), DVal::Str(e.1.clone()), DVal::Num(e.2.unwrap_or(1.0))]) }
fn ieval(env: &Env, e: &IEx) -> Option<DVal> {
    Some(match e {
        IEx::Num(x) => DVal::Num(*x), IEx::Var(n) => lookup(env, n)?.clone(),
        IEx::Bin(op, a, c) => match (ieval(env, a)?, ieval(env, c)?) { (DVal::Num(x), DVal::Num(y)) => DVal::Num(match op { '+' => x + y, '-' => x - y, _ => x * y }), _ => return None },
        IEx::At(a, i) => match (ieval(env, a)?, ieval(env, i)?) { (DVal::List(l), DVal::Num(x)) => { let z = whole(x)?; if z < 0 { return None; } l.get(z as usize)?.clone() } _ => return None },
        IEx::Len(a) => match ieval(env, a)? { DVal::List(l) => DVal::Num(l.len() as f64), _ => return None },
        IEx::Range(a, c, incl) => match (ieval(env, a)?, ieval(env, c)?) { (DVal::Num(x), DVal::Num(y)) => { let (lo, hi) = (whole(x)?, whole(y)?); let last = if *incl { hi + 1 } else { hi }; DVal::List((lo..last.max(lo)).map(|k| DVal::Num(k as f64)).collect()) } _ => return None },
        IEx::Enumerate(a) => match ieval(env, a)? { DVal::List(l) => DVal::List(l.into_iter().enumerate().map(|(i, x)| DVal::Tuple(vec![x, DVal::Num(i as f64)])).collect()), _ => return None },
        IEx::Nodes(g) => match ieval(env, g)? { DVal::Graph(ns) => DVal::List(ns.into_iter().map(|(n, es)| DVal::Node(n, es)).collect()), _ => return None },
        IEx::Edges(g) => match ieval(env, g)? { DVal::Graph(ns) => DVal::List(ns.iter().flat_map(|(_, es)| es.iter().map(edge_val)).collect()), _ => return None },
        IEx::NeighEdges(x) => match ieval(env, x)? { DVal::Node(_, es) => DVal::List(es.iter().map(edge_val).collect()), _ => return None },
        // union: first occurrence of every value of a ++ b; intersection / difference: a filtered by membership in b
        IEx::SetFn(k, a, c) => match (ieval(env, a)?, ieval(env, c)?) { (DVal::List(la), DVal::List(lc)) => {
            let num = |d: &DVal| match d { DVal::Num(x) => Some(*x), _ => None };
            let (na, nc): (Vec<f64>, Vec<f64>) = (la.iter().map(num).collect::<Option<Vec<_>>>()?, lc.iter().map(num).collect::<Option<Vec<_>>>()?);
            let out: Vec<f64> = match k { 0 => { let mut o: Vec<f64> = Vec::new(); for x in na.iter().chain(nc.iter()) { if !o.contains(x) { o.push(*x); } } o }
                1 => na.iter().filter(|x| nc.contains(x)).cloned().collect(), _ => na.iter().filter(|x| !nc.contains(x)).cloned().collect() };
            DVal::List(out.into_iter().map(DVal::Num).collect()) } _ => return None },
    })
}
fn bind_pat(env: &Env, p: &Pat, val: DVal) -> Option<Env> {
    let mut e = env.clone();
    match p { Pat::Single(n) => { if lookup(env, n).is_some() { return None; } e.push((n.clone(), val)) }
        Pat::Tuple(ns) => { let vs = match val { DVal::Tuple(l) | DVal::List(l) => l, _ => return None }; if ns.len() > vs.len() { return None; } for (n, x) in ns.iter().zip(vs) { if lookup(env, n).is_some() { return None; } e.push((n.clone(), x)); } } }
    Some(e)
}
fn iter_envs(binds: &[(Pat, IEx)], env: &Env) -> Option<Vec<Env>> {
    if binds.is_empty() { return Some(vec![env.clone()]); }
    let (p, it) = &binds[0];
    let vs = match ieval(env, it)? { DVal::List(l) => l, _ => return None };
    let mut out = Vec::new();
    for x in vs { let e = bind_pat(env, p, x)?; out.extend(iter_envs(&binds[1..], &e)?); }
    Some(out)
}
fn show_idx(d: &DVal) -> Option<String> { match d { DVal::Num(x) => whole(*x).map(|z| z.to_string()), DVal::Str(s) => Some(s.clone()), DVal::Node(n, _) => Some(n.clone()), _ => None } }
fn flat_name(env: &Env, n: &str, idx: &[IEx]) -> Option<String> {
    if idx.is_empty() { return Some(n.to_string()); }
    let parts: Option<Vec<String>> = idx.iter().map(|i| match i { IEx::Var(x) if lookup(env, x).is_none() => Some(x.clone()), other => show_idx(&ieval(env, other)?) }).collect();
    Some(format!("{}_{}", n, parts?.join("_")))
}
/// the flattened name as the hand-unrolled TEXT has to spell it: a negative index needs braces (`r_{-2}`)
fn flat_name_text(env: &Env, n: &str, idx: &[IEx]) -> Option<String> {
    if idx.is_empty() { return Some(n.to_string()); }
    let parts: Option<Vec<String>> = idx.iter().map(|i| match i { IEx::Var(x) if lookup(env, x).is_none() => Some(x.clone()), other => show_idx(&ieval(env, other)?).map(|t| if t.starts_with('-') { format!("{{{}}}", t) } else { t }) }).collect();
    Some(format!("{}_{}", n, parts?.join("_")))
}
fn fnum(x: f64) -> String { if x < 0.0 { format!("(-{})", -x) } else { format!("{}", x) } }
fn subst_text(env: &Env, e: &IEx) -> Option<String> {
    match e {
        IEx::Bin(op, a, c) => Some(format!("({} {} {})", subst_text(env, a)?, op, subst_text(env, c)?)),
        other => match ieval(env, other)? { DVal::Num(x) => Some(fnum(x)), _ => None },
    }
}
/// hand-unrolled text of an expression
fn unroll(p: &PExp, env: &Env) -> Option<String> {
    Some(match p {
        PExp::Num(x) => fnum(*x),
        // a value expression is unrolled by SUBSTITUTION, operators kept (`(t + 3)` at t = -3 is `((-3) + 3)`, not `0`): folding it
        // would be more than unrolling, and the compiler's bound analysis reads a literal coefficient more tightly than a constant expression
        PExp::Val(e) => subst_text(env, e)?,
        PExp::Dec(n) => n.clone(),
        PExp::Comp(n, idx) => flat_name_text(env, n, idx)?,
        PExp::Bin(op, a, c) => format!("({} {} {})", unroll(a, env)?, op, unroll(c, env)?),
        PExp::Neg(a) => format!("(-{})", unroll(a, env)?), PExp::Not(a) => format!("(not {})", unroll(a, env)?), PExp::Abs(a) => format!("abs {{ {} }}", unroll(a, env)?),
        PExp::Block(k, l) => aggregate_text(*k, l.iter().map(|x| unroll(x, env)).collect::<Option<Vec<_>>>()?)?,
        PExp::Scoped(k, binds, body) => aggregate_text(*k, iter_envs(binds, env)?.iter().map(|e| unroll(body, e)).collect::<Option<Vec<_>>>()?)?,
    })
}
fn aggregate_text(k: AK, xs: Vec<String>) -> Option<String> {
    Some(match k {
        AK::Sum => if xs.is_empty() { "0".into() } else { format!("({})", xs.join(" + ")) },
        AK::Prod => if xs.is_empty() { "1".into() } else { format!("({})", xs.join(" * ")) },
        AK::Avg => if xs.is_empty() { return None } else { format!("(({}) / {})", xs.join(" + "), xs.len()) },
        AK::Min => if xs.is_empty() { return None } else { format!("min {{ {} }}", xs.join(", ")) },
        AK::Max => if xs.is_empty() { return None } else { format!("max {{ {} }}", xs.join(", ")) },
        AK::All => if xs.is_empty() { return None } else { format!("all {{ {} }}", xs.join(", ")) },
        AK::Any => if xs.is_empty() { return None } else { format!("any {{ {} }}", xs.join(", ")) },
        AK::Xor => if xs.is_empty() { return None } else if xs.len() == 1 { xs[0].clone() } else { let mut it = xs.into_iter(); let first = it.next().unwrap(); it.fold(first, |acc, x| format!("({} xor {})", acc, x)) },
    })
}
fn type_text(env: &Env, t: &PType) -> Option<String> {
    let b = |e: &Option<IEx>, d: &str| -> Option<String> { match e { None => Some(d.to_string()), Some(x) => match ieval(env, x)? { DVal::Num(v) => Some(format!("{}", v)), _ => None } } };
    Some(match t { PType::Bool => "Boolean".into(), PType::Real(None, None) => "Real".into(), PType::NonNeg(None, None) => "NonNegativeReal".into(),
        PType::Real(lo, hi) => format!("Real({}, {})", b(lo, "MinusInfinity")?, b(hi, "Infinity")?), PType::NonNeg(lo, hi) => format!("NonNegativeReal({}, {})", b(lo, "0")?, b(hi, "Infinity")?),
        PType::IntRange(lo, hi) => format!("IntegerRange({}, {})", b(&Some(lo.clone()), "")?, b(&Some(hi.clone()), "")?) })
}
fn unrolled_text(p: &Prog) -> Option<String> {
    let mut cons = Vec::new();
    for c in &p.cons { for e in iter_envs(&c.iters, &p.env)? {
        let name = if c.name.is_empty() { String::new() } else { format!("{}: ", flat_name_text(&e, &c.name, &c.idx)?) };
        cons.push(if c.assertion { format!("    {}{}", name, unroll(&c.lhs, &e)?) } else { format!("    {}{} {} {}", name, unroll(&c.lhs, &e)?, c.cmp, unroll(&c.rhs, &e)?) });
    } }
    let mut decls = Vec::new();
    for d in &p.decls { for e in iter_envs(&d.iters, &p.env)? { for (n, idx) in &d.vars { decls.push(format!("    {} as {}", flat_name_text(&e, n, idx)?, type_text(&e, &d.ty)?)); } } }
    Some(format!("{} {}\ns.t.\n{}\ndefine\n{}", p.dir, unroll(&p.obj, &p.env)?, cons.join("\n"), decls.join("\n")))
}

// ---------------------------------------------------------------- the data-driven source text
fn itext(e: &IEx) -> String {
    match e { IEx::Num(x) => fnum(*x), IEx::Var(n) => n.clone(), IEx::Bin(op, a, c) => format!("({} {} {})", itext(a), op, itext(c)), IEx::At(a, i) => format!("{}[{}]", itext(a), itext(i)), IEx::Len(a) => format!("len({})", itext(a)),
        IEx::Range(a, c, incl) => format!("{}{}{}", itext(a), if *incl { "..=" } else { ".." }, itext(c)), IEx::Enumerate(a) => format!("enumerate({})", itext(a)), IEx::Nodes(g) => format!("nodes({})", itext(g)), IEx::Edges(g) => format!("edges({})", itext(g)), IEx::NeighEdges(x) => format!("neigh_edges({})", itext(x)), IEx::SetFn(k, a, c) => { // a range literal is not an argument in the grammar: inside a call it is written with the `range` function
            let arg = |x: &IEx| match x { IEx::Range(lo, hi, incl) => format!("range({}, {}, {})", itext(lo), itext(hi), incl), other => itext(other) };
            format!("{}({}, {})", ["union", "intersection", "difference"][*k as usize], arg(a), arg(c)) } }
}
fn ptext(p: &Pat) -> String { match p { Pat::Single(n) => n.clone(), Pat::Tuple(ns) => format!("({})", ns.join(", ")) } }
fn btext(binds: &[(Pat, IEx)]) -> String { binds.iter().map(|(p, it)| format!("{} in {}", ptext(p), itext(it))).collect::<Vec<_>>().join(", ") }
fn kname(k: AK) -> &'static str { match k { AK::Sum => "sum", AK::Prod => "prod", AK::Min => "min", AK::Max => "max", AK::Avg => "avg", AK::All => "all", AK::Any => "any", AK::Xor => "xor" } }
fn idx_text(i: &IEx) -> String { match i { IEx::Var(n) => n.clone(), IEx::Num(x) if *x >= 0.0 => format!("{}", x), other => format!("{{{}}}", itext(other)) } }
fn name_text(n: &str, idx: &[IEx]) -> String { if idx.is_empty() { n.to_string() } else { format!("{}_{}", n, idx.iter().map(idx_text).collect::<Vec<_>>().join("_")) } }
fn etext(p: &PExp) -> String {
    match p { PExp::Num(x) => fnum(*x), PExp::Val(e) => itext(e), PExp::Dec(n) => n.clone(), PExp::Comp(n, idx) => name_text(n, idx),
        PExp::Bin(op, a, c) => format!("({} {} {})", etext(a), op, etext(c)), PExp::Neg(a) => format!("(-{})", etext(a)), PExp::Not(a) => format!("(not {})", etext(a)), PExp::Abs(a) => format!("abs {{ {} }}", etext(a)),
        PExp::Block(k, l) => format!("{} {{ {} }}", kname(*k), l.iter().map(etext).collect::<Vec<_>>().join(", ")),
        PExp::Scoped(k, binds, body) => format!("{}({}) {{ {} }}", kname(*k), btext(binds), etext(body)) }
}
fn dtext(d: &DVal) -> String {
    match d { DVal::Num(x) => format!("{}", x), DVal::Str(s) => format!("\"{}\"", s), DVal::List(l) => format!("[{}]", l.iter().map(dtext).collect::<Vec<_>>().join(", ")), DVal::Tuple(l) => format!("({})", l.iter().map(dtext).collect::<Vec<_>>().join(", ")), DVal::Node(n, _) => n.clone(),
        DVal::Graph(ns) => format!("Graph {{ {} }}", ns.iter().map(|(n, es)| if es.is_empty() { n.clone() } else { format!("{} -> [{}]", n, es.iter().map(|(_, t, w)| match w { Some(x) => format!("{}: {}", t, x), None => t.clone() }).collect::<Vec<_>>().join(", ")) }).collect::<Vec<_>>().join(", ")) }
}
fn ttext(t: &PType) -> String {
    let b = |e: &Option<IEx>, d: &str| match e { None => d.to_string(), Some(x) => itext(x) };
    match t { PType::Bool => "Boolean".into(), PType::Real(None, None) => "Real".into(), PType::NonNeg(None, None) => "NonNegativeReal".into(), PType::Real(lo, hi) => format!("Real({}, {})", b(lo, "MinusInfinity"), b(hi, "Infinity")),
        PType::NonNeg(lo, hi) => format!("NonNegativeReal({}, {})", b(lo, "0"), b(hi, "Infinity")), PType::IntRange(lo, hi) => format!("IntegerRange({}, {})", itext(lo), itext(hi)) }
}
fn source_text(p: &Prog) -> String {
    let cons: Vec<String> = p.cons.iter().map(|c| { let name = if c.name.is_empty() { String::new() } else { format!("{}: ", name_text(&c.name, &c.idx)) }; let f = if c.iters.is_empty() { String::new() } else { format!(" for {}", btext(&c.iters)) };
        if c.assertion { format!("    {}{}{}", name, etext(&c.lhs), f) } else { format!("    {}{} {} {}{}", name, etext(&c.lhs), c.cmp, etext(&c.rhs), f) } }).collect();
    let consts: Vec<String> = p.env.iter().map(|(k, d)| format!("    let {} = {}", k, dtext(d))).collect();
    let decls: Vec<String> = p.decls.iter().map(|d| format!("    {} as {}{}", d.vars.iter().map(|(n, i)| name_text(n, i)).collect::<Vec<_>>().join(", "), ttext(&d.ty), if d.iters.is_empty() { String::new() } else { format!(" for {}", btext(&d.iters)) })).collect();
    format!("{} {}\ns.t.\n{}\nwhere\n{}\ndefine\n{}", p.dir, etext(&p.obj), cons.join("\n"), consts.join("\n"), decls.join("\n"))
}

// ---------------------------------------------------------------- Gallina
fn cqs(s: &str) -> String { cq::string(s) }
fn edges_coq(es: &[(String, String, Option<f64>)]) -> String { format!("[{}]", es.iter().map(|(f, t, w)| format!("({}, {}, {})", cqs(f), cqs(t), match w { Some(x) => format!("Some {}", cq::xq(*x)), None => "None".into() })).collect::<Vec<_>>().join("; ")) }
fn dcoq(d: &DVal) -> String {
    match d { DVal::Num(x) => format!("(DNum {})", cq::xq(*x)), DVal::Str(s) => format!("(DStr {})", cqs(s)), DVal::List(l) => format!("(DList [{}])", l.iter().map(dcoq).collect::<Vec<_>>().join("; ")), DVal::Tuple(l) => format!("(DTuple [{}])", l.iter().map(dcoq).collect::<Vec<_>>().join("; ")),
        DVal::Node(n, es) => format!("(DNode {} {})", cqs(n), edges_coq(es)), DVal::Graph(ns) => format!("(DGraph [{}])", ns.iter().map(|(n, es)| format!("({}, {})", cqs(n), edges_coq(es))).collect::<Vec<_>>().join("; ")) }
}
fn icoq(e: &IEx) -> String {
    match e { IEx::Num(x) => format!("(INum {})", cq::xq(*x)), IEx::Var(n) => format!("(IVar {})", cqs(n)), IEx::Bin(op, a, c) => format!("(IBin {} {} {})", match op { '+' => "Add", '-' => "Sub", _ => "Mul" }, icoq(a), icoq(c)), IEx::At(a, i) => format!("(IAt {} {})", icoq(a), icoq(i)), IEx::Len(a) => format!("(ILen {})", icoq(a)),
        IEx::Range(a, c, incl) => format!("(IRange {} {} {})", icoq(a), icoq(c), incl), IEx::Enumerate(a) => format!("(IEnumerate {})", icoq(a)), IEx::Nodes(g) => format!("(INodes {})", icoq(g)), IEx::Edges(g) => format!("(IEdges {})", icoq(g)), IEx::NeighEdges(x) => format!("(INeighEdges {})", icoq(x)), IEx::SetFn(k, a, c) => format!("(ISet {} {} {})", ["SUnion", "SInter", "SDiff"][*k as usize], icoq(a), icoq(c)) }
}
fn pcoq(p: &Pat) -> String { match p { Pat::Single(n) => format!("(PSingle {})", cqs(n)), Pat::Tuple(ns) => format!("(PTuple [{}])", ns.iter().map(|s| cqs(s)).collect::<Vec<_>>().join("; ")) } }
fn bcoq(b: &[(Pat, IEx)]) -> String { format!("[{}]", b.iter().map(|(p, it)| format!("({}, {})", pcoq(p), icoq(it))).collect::<Vec<_>>().join("; ")) }
fn kcoq(k: AK) -> &'static str { match k { AK::Sum => "KSum", AK::Prod => "KProd", AK::Min => "KMin", AK::Max => "KMax", AK::Avg => "KAvg", AK::All => "KAll", AK::Any => "KAny", AK::Xor => "KXor" } }
fn opcoq(op: &str) -> &'static str { match op { "+" => "Add", "-" => "Sub", "*" => "Mul", "/" => "Div", "and" => "BAnd", "or" => "BOr", "xor" => "BXor", "implies" => "BImplies", _ => "BIff" } }
fn ecoq(p: &PExp) -> String {
    match p { PExp::Num(x) => format!("(PNum {})", cq::xq(*x)), PExp::Val(e) => format!("(PVal {})", icoq(e)), PExp::Dec(n) => format!("(PDec {})", cqs(n)), PExp::Comp(n, idx) => format!("(PComp {} [{}])", cqs(n), idx.iter().map(icoq).collect::<Vec<_>>().join("; ")),
        PExp::Bin(op, a, c) => format!("(PBin {} {} {})", opcoq(op), ecoq(a), ecoq(c)), PExp::Neg(a) => format!("(PNeg {})", ecoq(a)), PExp::Not(a) => format!("(PNot {})", ecoq(a)), PExp::Abs(a) => format!("(PAbs {})", ecoq(a)),
        PExp::Block(k, l) => format!("(PBlock {} [{}])", kcoq(*k), l.iter().map(ecoq).collect::<Vec<_>>().join("; ")), PExp::Scoped(k, b, body) => format!("(PScoped {} {} {})", kcoq(*k), bcoq(b), ecoq(body)) }
}
fn tcoq(t: &PType) -> String { let o = |e: &Option<IEx>| match e { None => "None".to_string(), Some(x) => format!("(Some {})", icoq(x)) };
    match t { PType::Bool => "QBool".into(), PType::Real(a, c) => format!("(QReal {} {})", o(a), o(c)), PType::NonNeg(a, c) => format!("(QNonNeg {} {})", o(a), o(c)), PType::IntRange(a, c) => format!("(QIntRange {} {})", icoq(a), icoq(c)) } }
fn prog_coq(p: &Prog) -> String {
    format!("(mkPProg [{}] {} {} [{}] [{}])", p.env.iter().rev().map(|(k, d)| format!("({}, {})", cqs(k), dcoq(d))).collect::<Vec<_>>().join("; "), match p.dir { "min" => "DMin", _ => "DMax" }, ecoq(&p.obj),
        p.cons.iter().map(|c| format!("(mkPCon {} [{}] {} {} {} {} {})", cqs(&c.name), c.idx.iter().map(icoq).collect::<Vec<_>>().join("; "), ecoq(&c.lhs), match c.cmp { "<=" => "Le", ">=" => "Ge", _ => "Eq" }, ecoq(&c.rhs), c.assertion, bcoq(&c.iters))).collect::<Vec<_>>().join("; "),
        p.decls.iter().map(|d| format!("(mkPDecl [{}] {} {})", d.vars.iter().map(|(n, i)| format!("({}, [{}])", cqs(n), i.iter().map(icoq).collect::<Vec<_>>().join("; "))).collect::<Vec<_>>().join("; "), tcoq(&d.ty), bcoq(&d.iters))).collect::<Vec<_>>().join("; "))
}

// ---------------------------------------------------------------- generator
fn gen_prog(r: &mut Rng) -> Prog {
    let na = r.below(5); // 0..4 elements, empty arrays included
    let a: Vec<DVal> = (0..na).map(|_| DVal::Num(r.range(0, 9) as f64)).collect(); // the grammar has no negative array elements
    let nb = 1 + r.below(3);
    let b: Vec<DVal> = (0..nb).map(|_| DVal::Num(*r.pick(&[0.5, 1.5, 2.0, 1.0, 3.25]))).collect();
    let m: Vec<DVal> = (0..1 + r.below(3)).map(|_| DVal::List((0..r.below(4)).map(|_| DVal::Num(r.range(0, 6) as f64)).collect())).collect();
    let node_names = ["A", "B", "C", "D"]; let nn = 1 + r.below(4);
    let mut g: Vec<(String, Vec<(String, String, Option<f64>)>)> = Vec::new();
    for i in 0..nn { let mut es = Vec::new(); for j in 0..nn { if j != i && r.chance(1, 2) { let w = if r.chance(1, 2) { Some(r.range(1, 9) as f64) } else { None }; es.push((node_names[i].to_string(), node_names[j].to_string(), w)); } } g.push((node_names[i].to_string(), es)); }
    let n = r.range(0, 4) as f64;
    let cvals: Vec<DVal> = (0..r.below(5)).map(|_| DVal::Num(r.range(0, 9) as f64)).collect();
    let t3: Vec<DVal> = (0..2).map(|_| DVal::List((0..2).map(|_| DVal::List((0..2 + r.below(2)).map(|_| DVal::Num(r.range(1, 9) as f64)).collect())).collect())).collect();
    let env: Env = vec![("n".into(), DVal::Num(n)), ("z".into(), DVal::Num(0.0)), ("C".into(), DVal::List(cvals)), ("T".into(), DVal::List(t3)), ("A".into(), DVal::List(a)), ("B".into(), DVal::List(b)), ("M".into(), DVal::List(m)), ("G".into(), DVal::Graph(g))];
    // families: x_i (i in 0..=len(A)), q_i boolean same index set, y_i_j over M, w_u over nodes, e_u_v over edges, t scalar, k_i (i in 0..=n+1)
    let xs_range = range(num(0.0), len(v("A")), true);
    let decls = vec![
        PDecl { vars: vec![("t".into(), vec![])], ty: if r.chance(1, 2) { PType::Real(None, None) } else { PType::NonNeg(None, Some(num(50.0))) }, iters: vec![] },
        PDecl { vars: vec![("x".into(), vec![v("i")])], ty: match r.below(4) { 0 => PType::Real(Some(num(-10.0)), Some(num(10.0))), 1 => PType::NonNeg(None, Some(ib('+', v("i"), num(5.0)))), 2 => PType::IntRange(num(0.0), ib('+', len(v("A")), num(2.0))), _ => PType::Real(Some(ib('-', num(0.0), v("i"))), Some(ib('*', num(2.0), ib('+', v("i"), num(1.0))))) }, iters: vec![(one("i"), xs_range.clone())] },
        PDecl { vars: vec![("q".into(), vec![v("i")])], ty: PType::Bool, iters: vec![(one("i"), xs_range.clone())] },
        PDecl { vars: vec![("y".into(), vec![v("i"), v("j")])], ty: PType::NonNeg(None, Some(num(20.0))), iters: vec![(one("i"), range(num(0.0), len(v("M")), false)), (one("j"), range(num(0.0), len(at(v("M"), v("i"))), false))] },
        PDecl { vars: vec![("w".into(), vec![v("u")])], ty: PType::Real(Some(num(0.0)), Some(num(9.0))), iters: vec![(one("u"), IEx::Nodes(Box::new(v("G"))))] },
        // negative indexes: r_t over a range with a negative start (inclusive end), s_t from -1 so that an enumerate position minus one is declared
        PDecl { vars: vec![("r".into(), vec![v("t")])], ty: PType::Real(Some(num(-5.0)), Some(num(5.0))), iters: vec![(one("t"), range(ib('-', num(0.0), v("n")), v("n"), true))] },
        PDecl { vars: vec![("neg".into(), vec![v("t")])], ty: PType::Real(Some(num(-5.0)), Some(num(5.0))), iters: vec![(one("t"), range(num(-2.0), num(1.0), true))] },
        PDecl { vars: vec![("s".into(), vec![v("t")])], ty: PType::NonNeg(None, Some(num(30.0))), iters: vec![(one("t"), range(num(-1.0), len(v("A")), false))] },
        PDecl { vars: vec![("k".into(), vec![v("i")]), ("h".into(), vec![v("i"), v("i")])], ty: PType::Real(Some(num(-5.0)), Some(num(5.0))), iters: vec![(one("i"), range(v("z"), ib('+', v("n"), num(1.0)), true))] },
    ];
    let scoped = |r: &mut Rng| -> PExp {
        let kind_num = *r.pick(&[AK::Sum, AK::Sum, AK::Sum, AK::Max, AK::Min, AK::Avg]);
        match r.below(21) {
            // set functions over operands of different numeric kinds: a range (whole numbers made by the range) against an array of literals
            19 => { let k = r.below(3) as u8; let rg = range(num(0.0), ib('+', len(v("A")), num(3.0)), false);
                    let (x, y) = if r.chance(1, 2) { (rg, v("A")) } else { (v("C"), rg) };
                    PExp::Scoped(AK::Sum, vec![(one("i"), IEx::SetFn(k, Box::new(x), Box::new(y)))], Box::new(pb("*", PExp::Val(ib('+', v("i"), num(1.0))), PExp::Dec("t".into())))) }
            20 => pb("*", PExp::Val(len(IEx::SetFn(r.below(3) as u8, Box::new(range(num(1.0), num(6.0), true)), Box::new(v("A"))))), PExp::Dec("t".into())),
            // set functions as iteration sources (values used as coefficients), and their length
            15 => { let k = r.below(3) as u8; PExp::Scoped(AK::Sum, vec![(one("i"), IEx::SetFn(k, Box::new(v("A")), Box::new(v("C"))))], Box::new(pb("*", PExp::Val(ib('+', v("i"), num(1.0))), PExp::Dec("t".into())))) }
            16 => pb("*", PExp::Val(len(IEx::SetFn(r.below(3) as u8, Box::new(v("C")), Box::new(v("A"))))), PExp::Dec("t".into())),
            // three index levels, each position weighted differently
            17 => PExp::Scoped(AK::Sum, vec![(one("i"), range(num(0.0), num(2.0), false)), (one("j"), range(num(0.0), num(2.0), false)), (one("l"), range(num(0.0), len(at(at(v("T"), v("i")), v("j"))), false))],
                      Box::new(pb("*", PExp::Val(ib('*', at(at(at(v("T"), v("i")), v("j")), v("l")), ib('+', ib('*', v("j"), num(3.0)), ib('+', v("l"), num(1.0))))), PExp::Dec("t".into())))),
            18 => PExp::Scoped(AK::Sum, vec![(one("row"), at(v("T"), num(1.0))), (tup(&["el", "l"]), IEx::Enumerate(Box::new(v("row"))))], Box::new(pb("*", PExp::Val(ib('*', v("el"), ib('+', v("l"), num(1.0)))), PExp::Dec("t".into())))),
            12 => PExp::Scoped(kind_num, vec![(one("t"), range(ib('-', num(0.0), v("n")), v("n"), true))], Box::new(pb("*", PExp::Val(ib('+', v("t"), num(3.0))), comp("r", vec![v("t")])))),
            13 => PExp::Scoped(AK::Sum, vec![(tup(&["a", "i"]), IEx::Enumerate(Box::new(v("A"))))], Box::new(pb("*", PExp::Val(v("a")), pb("-", comp("s", vec![v("i")]), comp("s", vec![ib('-', v("i"), num(1.0))]))))),
            14 => PExp::Scoped(AK::Sum, vec![(one("t"), range(num(-2.0), num(1.0), true))], Box::new(pb("*", PExp::Val(ib('+', v("t"), num(4.0))), comp("neg", vec![v("t")])))),
            0 => PExp::Scoped(kind_num, vec![(one("i"), range(num(0.0), len(v("A")), false))], Box::new(pb("*", PExp::Val(at(v("A"), v("i"))), comp("x", vec![v("i")])))),
            1 => PExp::Scoped(kind_num, vec![(tup(&["a", "i"]), IEx::Enumerate(Box::new(v("A"))))], Box::new(pb("*", PExp::Val(v("a")), comp("x", vec![v("i")])))),
            2 => PExp::Scoped(kind_num, vec![(one("i"), range(num(0.0), len(v("M")), false)), (one("j"), range(num(0.0), len(at(v("M"), v("i"))), false))], Box::new(pb("*", PExp::Val(at(at(v("M"), v("i")), v("j"))), comp("y", vec![v("i"), v("j")])))),
            3 => PExp::Scoped(AK::Sum, vec![(one("row"), v("M")), (one("el"), v("row"))], Box::new(pb("*", PExp::Val(v("el")), PExp::Dec("t".into())))),
            4 => PExp::Scoped(kind_num, vec![(one("u"), IEx::Nodes(Box::new(v("G"))))], Box::new(comp("w", vec![v("u")]))),
            5 => PExp::Scoped(AK::Sum, vec![(tup(&["u", "p", "c"]), IEx::Edges(Box::new(v("G"))))], Box::new(pb("*", PExp::Val(v("c")), pb("-", comp("w", vec![v("u")]), comp("w", vec![v("p")]))))),
            6 => PExp::Scoped(AK::Sum, vec![(one("i"), range(num(1.0), len(v("A")), true))], Box::new(pb("*", comp("x", vec![v("i")]), PExp::Scoped(AK::Sum, vec![(one("j"), range(num(0.0), v("i"), false))], Box::new(PExp::Val(at(v("A"), v("j")))))))),
            7 => PExp::Scoped(kind_num, vec![(one("i"), range(v("n"), v("n"), false))], Box::new(comp("x", vec![v("i")]))), // always empty
            8 => PExp::Scoped(AK::Sum, vec![(one("i"), range(num(0.0), len(v("A")), false))], Box::new(pb("-", comp("x", vec![ib('+', v("i"), num(1.0))]), comp("x", vec![v("i")])))),
            9 => pb("*", PExp::Scoped(AK::Prod, vec![(one("i"), range(num(1.0), v("n"), true))], Box::new(PExp::Val(v("i")))), PExp::Dec("t".into())),
            10 => PExp::Scoped(AK::Sum, vec![(one("i"), range(v("z"), ib('+', v("n"), num(1.0)), true))], Box::new(pb("+", comp("k", vec![v("i")]), pb("*", PExp::Val(v("i")), comp("h", vec![v("i"), v("i")]))))),
            _ => PExp::Scoped(AK::Sum, vec![(tup(&["b", "i"]), IEx::Enumerate(Box::new(v("B"))))], Box::new(pb("*", PExp::Val(ib('*', v("b"), ib('+', v("i"), num(1.0)))), comp("x", vec![num(0.0)])))),
        }
    };
    let block = |r: &mut Rng| -> PExp { match r.below(4) { 0 => PExp::Block(AK::Min, vec![comp("x", vec![num(0.0)]), PExp::Dec("t".into()), PExp::Num(3.0)]), 1 => PExp::Block(AK::Max, vec![comp("x", vec![num(0.0)]), PExp::Neg(Box::new(PExp::Dec("t".into())))]), 2 => PExp::Block(AK::Avg, vec![comp("x", vec![num(0.0)]), PExp::Dec("t".into()), PExp::Val(v("n"))]), _ => PExp::Abs(Box::new(pb("-", comp("x", vec![num(0.0)]), PExp::Dec("t".into())))) } };
    let logic = |r: &mut Rng| -> PExp { let k = *r.pick(&[AK::All, AK::Any, AK::Xor]); match r.below(3) { 0 => PExp::Scoped(k, vec![(one("i"), range(num(0.0), len(v("A")), true))], Box::new(comp("q", vec![v("i")]))), 1 => PExp::Block(k, vec![comp("q", vec![num(0.0)]), PExp::Not(Box::new(comp("q", vec![len(v("A"))])))]), _ => pb("implies", comp("q", vec![num(0.0)]), PExp::Scoped(k, vec![(tup(&["a", "i"]), IEx::Enumerate(Box::new(v("A"))))], Box::new(comp("q", vec![v("i")])))) } };
    let mut cons = Vec::new();
    for ci in 0..1 + r.below(4) {
        cons.push(match r.below(9) {
            7 => PCon { name: "lag".into(), idx: vec![v("t")], lhs: pb("-", comp("r", vec![v("t")]), comp("r", vec![ib('+', v("t"), num(1.0))])), cmp: "<=", rhs: PExp::Num(4.0), assertion: false, iters: vec![(one("t"), range(ib('-', num(0.0), v("n")), v("n"), false))] },
            8 => PCon { name: "ramp".into(), idx: vec![v("i")], lhs: pb("-", comp("s", vec![v("i")]), comp("s", vec![ib('-', v("i"), num(1.0))])), cmp: "<=", rhs: PExp::Val(v("a")), assertion: false, iters: vec![(tup(&["a", "i"]), IEx::Enumerate(Box::new(v("A"))))] },
            0 => PCon { name: "c".into(), idx: vec![v("s")], lhs: pb("+", comp("x", vec![v("s")]), scoped(r)), cmp: "<=", rhs: PExp::Val(ib('+', v("s"), num(10.0))), assertion: false, iters: vec![(one("s"), range(num(0.0), len(v("A")), true))] },
            1 => PCon { name: "d".into(), idx: vec![v("i"), v("j")], lhs: comp("y", vec![v("i"), v("j")]), cmp: "<=", rhs: PExp::Val(at(at(v("M"), v("i")), v("j"))), assertion: false, iters: vec![(one("i"), range(num(0.0), len(v("M")), false)), (one("j"), range(num(0.0), len(at(v("M"), v("i"))), false))] },
            2 => PCon { name: "g".into(), idx: vec![v("u")], lhs: pb("+", comp("w", vec![v("u")]), PExp::Scoped(AK::Sum, vec![(tup(&["_", "p"]), IEx::NeighEdges(Box::new(v("u"))))], Box::new(comp("w", vec![v("p")])))), cmp: ">=", rhs: PExp::Num(1.0), assertion: false, iters: vec![(one("u"), IEx::Nodes(Box::new(v("G"))))] },
            3 => PCon { name: String::new(), idx: vec![], lhs: scoped(r), cmp: *r.pick(&["<=", ">=", "="]), rhs: PExp::Num(r.range(0, 20) as f64), assertion: false, iters: vec![] },
            4 => PCon { name: format!("b{ci}"), idx: vec![], lhs: block(r), cmp: "<=", rhs: PExp::Num(7.0), assertion: false, iters: vec![] },
            5 => PCon { name: String::new(), idx: vec![], lhs: logic(r), cmp: "=", rhs: PExp::Num(1.0), assertion: true, iters: vec![] },
            _ => PCon { name: "e".into(), idx: vec![v("u"), v("p")], lhs: pb("-", comp("w", vec![v("u")]), comp("w", vec![v("p")])), cmp: "<=", rhs: PExp::Val(v("c")), assertion: false, iters: vec![(tup(&["u", "p", "c"]), IEx::Edges(Box::new(v("G"))))] },
        });
    }
    let obj = if r.chance(1, 4) { pb("+", scoped(r), scoped(r)) } else { scoped(r) };
    Prog { env, dir: if r.chance(1, 2) { "min" } else { "max" }, obj, cons, decls }
}

fn rows(l: &LinearModel) -> Vec<String> {
    l.constraints().iter().map(|c| { let t: Vec<String> = c.coefficients().iter().enumerate().filter(|(_, v)| **v != 0.0).map(|(i, v)| format!("{}*{}", (v * 1e9).round() / 1e9, l.variables()[i])).collect(); format!("{}|{}|{}|{}", c.name(), t.join(" "), c.constraint_type(), (c.rhs() * 1e9).round() / 1e9) }).collect()
}
fn same_linear(a: &LinearModel, c: &LinearModel) -> Result<(), String> {
    if a.optimization_type() != c.optimization_type() { return Err("direction".into()); }
    let (ra, rc) = (rows(a), rows(c));
    if ra != rc { let k = ra.iter().zip(&rc).position(|(x, y)| x != y).unwrap_or(ra.len().min(rc.len())); return Err(format!("{} rows vs {} rows; first difference at row {}: {:?} vs {:?}", ra.len(), rc.len(), k, ra.get(k), rc.get(k))); }
    let obj = |l: &LinearModel| l.objective().iter().enumerate().filter(|(_, v)| **v != 0.0).map(|(i, v)| format!("{}*{}", (v * 1e9).round() / 1e9, l.variables()[i])).collect::<Vec<_>>();
    if obj(a) != obj(c) { return Err(format!("objective {:?} vs {:?}", obj(a), obj(c))); }
    if (a.objective_offset() - c.objective_offset()).abs() > 1e-9 * a.objective_offset().abs().max(1.0) { return Err(format!("offset {} vs {}", a.objective_offset(), c.objective_offset())); }
    if a.variables() != c.variables() { return Err(format!("variables {:?} vs {:?}", a.variables(), c.variables())); }
    Ok(())
}
/// published domains: equal, or (class derived-domain-differs) same kind of domain with one interval inside the other
fn domain_diff(a: &LinearModel, c: &LinearModel) -> Option<(String, String)> {
    use rooc::VariableType as VT;
    for v in a.variables() {
        let (ta, tc) = (*a.domain()[v].get_type(), *c.domain()[v].get_type());
        if format!("{:?}", ta) == format!("{:?}", tc) { continue; }
        let iv = |t: &VT| match t { VT::Boolean => (0.0, 1.0, 0), VT::IntegerRange(l, h) => (*l as f64, *h as f64, 1), VT::Real(l, h) => (*l, *h, 2), VT::NonNegativeReal(l, h) => (*l, *h, 3) };
        let ((la, ha, ka), (lc, hc, kc)) = (iv(&ta), iv(&tc));
        let nested = ka == kc && ((lc >= la && hc <= ha) || (la >= lc && ha <= hc));
        return Some((if nested { "derived-domain-differs".to_string() } else { "unclassified".to_string() }, format!("`{}`: {:?} vs {:?}", v, ta, tc)));
    }
    None
}

fn main() {
    let args: Vec<String> = std::env::args().collect();
    let seed: u64 = args[1].parse().unwrap(); let n: usize = args[2].parse().unwrap(); let outdir = &args[3];
    let mut r = Rng::new(seed ^ 0xC06);
    let mut rep = Report::default();
    let mut cases = std::io::BufWriter::new(std::fs::File::create(format!("{outdir}/cases.txt")).unwrap());
    let mut inputs = std::io::BufWriter::new(std::fs::File::create(format!("{outdir}/inputs.txt")).unwrap());
    std::panic::set_hook(Box::new(|_| {}));
    for i in 0..n {
        let p = gen_prog(&mut r);
        let src = source_text(&p);
        let compiled = std::panic::catch_unwind(|| RoocParser::new(src.clone()).parse_and_transform(vec![], &IndexMap::new()));
        let model = match compiled { Err(_) => { rep.fail(json!({"prop":"C18","kind":"panic","input":src})); continue; } Ok(Err(e)) => { rep.count("source.rejected"); if rep.counters.get("source.rejected").copied().unwrap_or(0) <= 5 { rep.sample(json!({"rejected": src, "error": e.chars().take(300).collect::<String>()}), 30); }
                // the reference must reject it too (or it is a generator slip): a reference that expands what rooc rejects is a failure
                if unrolled_text(&p).is_some() { rep.fail(json!({"prop":"C06","kind":"data-driven-program-rejected-but-unrolling-exists","class":"unclassified","input":src,"error":e.chars().take(300).collect::<String>()})); }
                let line = format!("(mkC6 {} None)", prog_coq(&p)); writeln!(cases, "{line}").unwrap(); writeln!(inputs, "{}", src.replace('\n', " | ")).unwrap(); continue; } Ok(Ok(m)) => m };
        rep.count("source.compiled");
        // ---- tie with the Coq expander: objective, constraints in order, declared variables in order
        let dom: Vec<String> = model.domain().iter().map(|(k, d)| format!("({}, {})", cq::string(k), cq_vtype(d.get_type()))).collect();
        let line = format!("(mkC6 {} (Some ({}, [{}], [{}])))", prog_coq(&p), cq::exp(&model.objective().rhs), model.constraints().iter().map(cq_constraint).collect::<Vec<_>>().join("; "), dom.join("; "));
        writeln!(cases, "{line}").unwrap(); writeln!(inputs, "{}", src.replace('\n', " | ")).unwrap();
        rep.distinct_hash(&line);
        if model.constraints().len() >= 2 { rep.count("nontrivial.expands_to_two_or_more_constraints"); }
        // ---- oracle: the hand-unrolled text compiles to the same linear model
        match unrolled_text(&p) {
            None => rep.count("unrolled.not_expressible(empty min/max/avg/logic block)"),
            Some(flat) => {
                let m2 = match RoocParser::new(flat.clone()).parse_and_transform(vec![], &IndexMap::new()) { Ok(m) => m, Err(e) => { rep.fail(json!({"prop":"C06","kind":"unrolled-text-rejected","class":"unclassified","input":src,"unrolled":flat,"error":e.chars().take(300).collect::<String>()})); continue; } };
                match (Linearizer::linearize(model.clone()), Linearizer::linearize(m2)) {
                    (Ok(a), Ok(c)) => { rep.count("unrolled.compared");
                        match same_linear(&a, &c) { Err(why) => rep.fail(json!({"prop":"C06","kind":"expansion-differs-from-hand-unrolled-text","class":"unclassified","input":src,"unrolled":flat,"difference":why})),
                            Ok(()) => match domain_diff(&a, &c) { None => rep.count("unrolled.identical"), Some((class, what)) => rep.fail(json!({"prop":"C06","kind":"expansion-differs-from-hand-unrolled-text","class":class,"input":src,"unrolled":flat,"difference":what})) } } }
                    (Err(_), Err(_)) => rep.count("unrolled.both_not_linearizable"),
                    (x, y) => rep.fail(json!({"prop":"C06","kind":"only-one-of-the-two-texts-linearizes","class":"unclassified","input":src,"unrolled":flat,"data_driven":x.map(|_| "ok").map_err(|e| e.to_string()),"unrolled_result":y.map(|_| "ok").map_err(|e| e.to_string())})),
                }
            }
        }
        if i % 97 == 0 { rep.sample(json!({"source": src, "unrolled": unrolled_text(&p)}), 6); }
    }
    rep.add("cases", n as u64);
    rep.write(&format!("{outdir}/report.json"));
}
