//! Compiler-core harness (C01, C02, C07, C08): random and corpus source models through
//! Linearizer::linearize; prints correspondence cases; evaluates the properties on the implementation.
use harness::{eval::*, gens::b, models::*, report::Report, rng::Rng};
use indexmap::IndexMap;
use rooc::model_transformer::{Constraint, Exp, Model};
use rooc::{BinOp, Comparison, Linearizer, OptimizationType, UnOp, VariableType};
use serde_json::json;
use std::io::Write;

fn corpus() -> Vec<(Model, Vec<VarDecl>)> {
    let mut out = Vec::new();
    let d = |name: &str, ty: VariableType| VarDecl { name: name.into(), ty, used: true };
    let sub = |a: Exp, c: Exp| bin(BinOp::Sub, a, c);
    // F1 witnesses
    let dd = vec![d("b", VariableType::Boolean)];
    out.push((build_model(OptimizationType::Min, var("b"), vec![Constraint::new(Exp::Abs(b(sub(var("b"), num(1.0)))), Comparison::LessOrEqual, num(0.0), "".into())], &dd), dd));
    let dd = vec![d("x", VariableType::IntegerRange(0, 3))];
    out.push((build_model(OptimizationType::Min, var("x"), vec![Constraint::new(Exp::Abs(b(sub(var("x"), num(0.5)))), Comparison::LessOrEqual, num(0.0), "".into())], &dd), dd));
    // a genuine coefficient far below every tolerance on a variable with a huge range: its term still counts in the row's bounds
    let dd = vec![d("x", VariableType::Real(-1000.0, 1000.0)), d("y", VariableType::Real(-1.0e12, 0.0))];
    out.push((build_model(OptimizationType::Max, var("x"), vec![Constraint::new(bin(BinOp::Add, var("x"), bin(BinOp::Mul, num(1.0e-10), var("y"))), Comparison::LessOrEqual, num(1.0), "".into())], &dd), dd));
    let dd = vec![d("x", VariableType::Real(-50.0, 50.0)), d("y", VariableType::Real(0.0, 4.0e11))];
    out.push((build_model(OptimizationType::Min, var("x"), vec![Constraint::new(bin(BinOp::Sub, var("x"), bin(BinOp::Mul, var("y"), num(2.5e-10))), Comparison::GreaterOrEqual, num(-3.0), "tiny".into())], &dd), dd));
    // abs exact big-M, min/max selectors, one-sided
    let dd = vec![d("x", VariableType::Real(-3.0, 2.0)), d("y", VariableType::Real(-1.0, 4.0))];
    out.push((build_model(OptimizationType::Max, Exp::Abs(b(var("x"))), vec![Constraint::new(Exp::Max(vec![var("x"), var("y")]), Comparison::LessOrEqual, num(3.0), "cap".into())], &dd), dd.clone()));
    out.push((build_model(OptimizationType::Min, Exp::Max(vec![var("x"), var("y"), num(1.0)]), vec![Constraint::new(Exp::Min(vec![var("x"), var("y")]), Comparison::GreaterOrEqual, num(-0.5), "".into())], &dd), dd.clone()));
    out.push((build_model(OptimizationType::Satisfy, num(0.0), vec![Constraint::new(Exp::Abs(b(sub(var("x"), var("y")))), Comparison::Equal, num(1.0), "c".into()), Constraint::new(var("x"), Comparison::LessOrEqual, num(1.0), "c".into()), Constraint::new(var("y"), Comparison::GreaterOrEqual, num(0.0), "c__2".into())], &dd), dd.clone()));
    // a dominated operand with an infinite bound in front of two retained ones, in an exact context (big-M constants after pruning)
    let dd = vec![d("y", VariableType::Real(f64::NEG_INFINITY, f64::INFINITY)), d("x", VariableType::Real(1.0, 5.0)), d("z", VariableType::Real(2.0, 6.0))];
    out.push((build_model(OptimizationType::Max, Exp::Max(vec![var("y"), var("x"), var("z")]), vec![Constraint::new(var("y"), Comparison::LessOrEqual, num(0.0), "".into())], &dd), dd.clone()));
    out.push((build_model(OptimizationType::Min, Exp::Min(vec![var("y"), var("x"), var("z")]), vec![Constraint::new(var("y"), Comparison::GreaterOrEqual, num(10.0), "".into())], &dd), dd.clone()));
    // a user variable that carries the name and the type of an auxiliary the model needs
    let dd = vec![d("a", VariableType::Boolean), d("b", VariableType::Boolean), d("y", VariableType::Boolean), d("$or_0", VariableType::Boolean)];
    out.push((build_model(OptimizationType::Max, bin(BinOp::Add, var("y"), var("$or_0")), vec![Constraint::new(var("y"), Comparison::Equal, Exp::Or(vec![var("a"), var("b")]), "".into()),
        Constraint::new(bin(BinOp::Add, var("$or_0"), var("a")), Comparison::LessOrEqual, num(1.0), "link".into())], &dd), dd.clone()));
    let dd = vec![d("x", VariableType::Real(-3.0, 2.0)), d("$abs_0_positive", VariableType::Boolean)];
    out.push((build_model(OptimizationType::Max, bin(BinOp::Sub, Exp::Abs(b(var("x"))), var("$abs_0_positive")), vec![Constraint::new(var("x"), Comparison::LessOrEqual, num(1.5), "".into())], &dd), dd.clone()));
    // missing bounds
    let dd = vec![d("x", VariableType::Real(f64::NEG_INFINITY, f64::INFINITY))];
    out.push((build_model(OptimizationType::Max, Exp::Abs(b(var("x"))), vec![Constraint::new(var("x"), Comparison::LessOrEqual, num(3.0), "".into())], &dd), dd.clone()));
    out.push((build_model(OptimizationType::Max, Exp::Abs(b(var("x"))), vec![Constraint::new(var("x"), Comparison::LessOrEqual, num(3.0), "".into()), Constraint::new(bin(BinOp::Mul, num(-2.0), var("x")), Comparison::LessOrEqual, num(4.0), "".into())], &dd), dd.clone()));
    // logic
    let dd = vec![d("p", VariableType::Boolean), d("q", VariableType::Boolean), d("r", VariableType::Boolean)];
    out.push((build_model(OptimizationType::Max, bin(BinOp::Add, var("p"), var("q")), vec![Constraint::new_logic_assertion(Exp::Implies(b(var("p")), b(Exp::Not(b(var("q"))))), "excl".into()), Constraint::new_logic_assertion(Exp::Or(vec![Exp::And(vec![var("p"), var("r")]), Exp::Xor(b(var("q")), b(var("r")))]), "".into())], &dd), dd.clone()));
    out.push((build_model(OptimizationType::Min, Exp::And(vec![var("p"), Exp::Or(vec![var("q"), var("r")])]), vec![Constraint::new(Exp::Iff(b(var("p")), b(var("q"))), Comparison::Equal, num(1.0), "".into()), Constraint::new(num(0.0), Comparison::GreaterOrEqual, Exp::And(vec![var("q"), Exp::Not(b(var("r")))]), "".into())], &dd), dd.clone()));
    out.push((build_model(OptimizationType::Satisfy, num(0.0), vec![Constraint::new_logic_assertion(Exp::Not(b(Exp::And(vec![Exp::Or(vec![var("p"), var("q")]), Exp::Iff(b(var("q")), b(Exp::UnOp(UnOp::Not, b(var("r")))))]))), "".into())], &dd), dd.clone()));
    out
}

fn main() {
    let args: Vec<String> = std::env::args().collect();
    let seed: u64 = args[1].parse().unwrap();
    let n: usize = args[2].parse().unwrap();
    let max_points: usize = args[3].parse().unwrap();
    let outdir = &args[4];
    let mut r = Rng::new(seed);
    let mut rep = Report::default();
    let mut cases = std::io::BufWriter::new(std::fs::File::create(format!("{outdir}/cases.txt")).unwrap());
    let mut inputs = std::io::BufWriter::new(std::fs::File::create(format!("{outdir}/inputs.txt")).unwrap());
    let mut flags = std::io::BufWriter::new(std::fs::File::create(format!("{outdir}/flags.txt")).unwrap());
    let mut all: Vec<(Model, Vec<VarDecl>, &'static str)> = corpus().into_iter().map(|(m, d)| (m, d, "corpus")).collect();
    let gens = [(ModelGen { logic: false, arith: true }, "arith"), (ModelGen { logic: true, arith: true }, "mixed"), (ModelGen { logic: true, arith: false }, "logic"), (ModelGen { logic: false, arith: false }, "affine")];
    for i in 0..n { let (g, s) = &gens[i % 4]; let (m, d) = g.model(&mut r); all.push((m, d, s)); }
    // decimal stream: integer variables bounded by rows with non-dyadic coefficients whose exact quotient is a whole number
    // (0.9 * x >= 2.7): the derived bound lands a few ulps off the integer, which is what the rounding tolerance of
    // apply_to_domain exists for
    for _ in 0..n / 6 {
        let nv = 1 + r.below(2);
        let d: Vec<VarDecl> = (0..nv).map(|i| VarDecl { name: ["x", "y"][i].to_string(), ty: VariableType::IntegerRange(r.range(-6, 0) as i32, r.range(4, 10) as i32), used: true }).collect();
        let mut cs = Vec::new();
        for (j, v) in d.iter().enumerate() {
            // one row that bounds the variable from above and sometimes one from below, both strictly inside the declared range
            // and apart from each other: a derived bound that MEETS another bound within a few ulps is an exact tie in rational
            // arithmetic and a coin toss in f64 (see split_numerical_ties), which is not what this stream is about
            let (lo, hi) = match v.ty { VariableType::IntegerRange(a, c) => (a as i64, c as i64), _ => (0, 4) };
            let mid = (lo + hi).div_euclid(2);
            for side in 0..1 + r.below(2) {
                let c = *r.pick(&[0.1, 0.3, 0.7, 0.9, 1.1, 1.3, 2.3, 0.6]) * if r.chance(1, 4) { -1.0 } else { 1.0 };
                let upper = side == 0;
                let k = if upper { r.range(mid + 1, hi - 1) } else { r.range(lo + 1, mid) } as f64;
                let cmp = if upper == (c > 0.0) { Comparison::LessOrEqual } else { Comparison::GreaterOrEqual };
                let lhs = if r.chance(1, 2) { bin(BinOp::Mul, num(c), var(&v.name)) } else { bin(BinOp::Mul, var(&v.name), num(c)) };
                cs.push(Constraint::new(lhs, cmp, num(c * k), if j == 0 { "".into() } else { format!("r{j}") }));
            }
        }
        let obj = d.iter().fold(num(0.0), |acc, v| bin(BinOp::Add, acc, var(&v.name)));
        let m = build_model(if r.chance(1, 2) { OptimizationType::Min } else { OptimizationType::Max }, obj, cs, &d);
        all.push((m, d, &"decimal"));
    }

    std::panic::set_hook(Box::new(|_| {}));
    for (idx, (m, decls, stream)) in all.iter().enumerate() {
        rep.count(&format!("stream.{stream}"));
        let text = model_text(m).replace('\n', " | ");
        let res = std::panic::catch_unwind(|| Linearizer::linearize(m.clone()));
        let res = match res { Ok(x) => x, Err(_) => { rep.fail(json!({"prop":"C18","kind":"panic","input": text})); continue; } };
        // diverging propagation (step limit reached, or magnitudes beyond exact f64 range) is not replayed
        // in the exact rational model: those cases go to the oracle-only stream
        let an = rooc::bounds_verif_hooks::analyze(m.domain(), m.constraints(), None, &[]);
        let huge = an.variable_bounds.iter().any(|(_, lo, hi)| (lo.is_finite() && lo.abs() > 1e12) || (hi.is_finite() && hi.abs() > 1e12) || *lo == f64::INFINITY || *hi == f64::NEG_INFINITY || lo.is_nan() || hi.is_nan());
        let replay_in_model = !(an.reached_iteration_limit || huge);
        if !replay_in_model { rep.count("stream.diverging_propagation(oracle-only)"); }
        let expect = match &res { Ok(l) => format!("(inr {})", linmodel(l)), Err(e) => format!("(inl {})", lerr(e)) };
        let line = format!("(mkLCase {} {})", model(m), expect);
        rep.distinct_hash(&line);
        if replay_in_model {
            writeln!(cases, "{line}").unwrap();
            writeln!(inputs, "{text}").unwrap();
            // did the implementation's own bound analysis find the model infeasible? (where f64 ties may legitimately change more than numbers)
            writeln!(flags, "{}", if an.detected_infeasible { "I" } else { "-" }).unwrap();
        }
        let l = match &res {
            Ok(l) => { rep.count("compiled.ok"); l }
            Err(e) => { rep.count(&format!("compiled.err.{}", lerr_kind(e))); continue; }
        };
        for v in l.variables() { if v.starts_with('$') { let k: String = v.trim_start_matches('$').chars().take_while(|c| c.is_alphabetic()).collect(); rep.count(&format!("aux.{k}")); } }
        if l.variables().iter().any(|v| v.starts_with('$')) { rep.count("nontrivial.with_aux"); }
        // ---- C08: well-formedness of every output
        {
            let vars = l.variables();
            let mut sorted = vars.clone(); sorted.sort(); sorted.dedup();
            let mut bad = Vec::new();
            if &sorted != vars { bad.push("variables not sorted/duplicate-free".to_string()); }
            let keys: Vec<String> = { let mut k: Vec<String> = l.domain().keys().cloned().collect(); k.sort(); k };
            if keys != sorted { bad.push("domain key set differs from the variable list".into()); }
            let mut used = Vec::new();
            vars_of(&m.objective().rhs, &mut used);
            for c in m.constraints() { vars_of(c.lhs(), &mut used); vars_of(c.rhs(), &mut used); }
            for u in &used { if decls.iter().any(|d| &d.name == u && d.used) && !vars.contains(u) { bad.push(format!("source variable {u} missing")); } }
            for row in l.constraints() {
                if row.coefficients().len() != vars.len() { bad.push("row length".into()); }
                if row.coefficients().iter().any(|c| !c.is_finite()) || !row.rhs().is_finite() { bad.push(format!("non-finite row {:?} rhs {}", row.coefficients(), row.rhs())); }
            }
            if l.objective().len() != vars.len() { bad.push("objective length".into()); }
            if l.objective().iter().any(|c| !c.is_finite()) || !l.objective_offset().is_finite() { bad.push("non-finite objective".into()); }
            let names: Vec<String> = l.constraints().iter().map(|c| c.name()).filter(|n| !n.is_empty()).collect();
            let mut nn = names.clone(); nn.sort(); nn.dedup();
            if nn.len() != names.len() { bad.push(format!("duplicate row names {:?}", names)); }
            // an auxiliary must never take over a declared variable: every declared variable that survives keeps its kind of
            // domain and a range inside the declared one (names of the compiler's own style, `$or_0`, may be user names too)
            for d in decls.iter() { if let Some(dv) = l.domain().get(&d.name) {
                let same_kind = std::mem::discriminant(dv.get_type()) == std::mem::discriminant(&d.ty);
                let rng = |t: &VariableType| match t { VariableType::Boolean => (0.0, 1.0), VariableType::IntegerRange(a, b) => (*a as f64, *b as f64), VariableType::NonNegativeReal(a, b) => (a.max(0.0), *b), VariableType::Real(a, b) => (*a, *b) };
                let ((lo, hi), (dlo, dhi)) = (rng(dv.get_type()), rng(&d.ty));
                if !same_kind { bad.push(format!("declared variable {} changed its kind of domain: declared {}, published {}", d.name, d.ty, dv.get_type())); }
                else if lo < dlo - 1e-9 || hi > dhi + 1e-9 { bad.push(format!("declared variable {} published with a range outside its declaration: declared {}, published {}", d.name, d.ty, dv.get_type())); }
            } }
            for (k, dv) in l.domain() {
                let (lo, hi) = match dv.get_type() { VariableType::Boolean => (0.0, 1.0), VariableType::IntegerRange(a, b) => (*a as f64, *b as f64), VariableType::NonNegativeReal(a, b) | VariableType::Real(a, b) => (*a, *b) };
                if !(lo <= hi) || lo == f64::INFINITY || hi == f64::NEG_INFINITY { bad.push(format!("ill-formed range of {k}: [{lo}, {hi}]")); }
            }
            let has_inf_const = { let mut f = false; let mut chk = |e: &Exp| { if has_nonfinite_const(e) { f = true; } }; chk(&m.objective().rhs); for c in m.constraints() { chk(c.lhs()); chk(c.rhs()); } f };
            for bmsg in bad { rep.fail(json!({"prop":"C08","kind":"ill-formed-output","class": if has_inf_const { "nonfinite-source-constant" } else { "unclassified" },"input": text, "what": bmsg})); }
        }
        // ---- C01 / C02 / C07: projection test on a grid of assignments of the declared variables
        let declared: Vec<String> = decls.iter().filter(|d| d.used).map(|d| d.name.clone()).collect();
        let side = LinSide::new(l, &declared);
        if side.bool_aux.len() > 10 || side.cont_aux.len() > 7 || declared.len() > 5 { rep.count("oracle.skipped_too_large"); continue; }
        let grids: Vec<Vec<f64>> = decls.iter().filter(|d| d.used).map(|d| grid_for(&d.ty)).collect();
        let total: usize = grids.iter().map(|g| g.len()).product();
        let dirsign: i8 = match m.objective().objective_type { OptimizationType::Min => -1, OptimizationType::Max => 1, OptimizationType::Satisfy => 0 };
        let mut feasible_pts = 0;
        for k in 0..max_points.min(total) {
            let mut code = if total <= max_points { k } else { r.below(total) };
            let mut env = IndexMap::new();
            for (j, name) in declared.iter().enumerate() { let g = &grids[j]; env.insert(name.clone(), g[code % g.len()]); code /= g.len(); }
            let src = match source_feasible(m, &env) { Some(x) => x, None => { rep.count("points.undefined"); continue; } };
            rep.count("points.evaluated");
            let best = side.best_extension(&env, dirsign);
            if matches!(best, Some(v) if v.is_nan()) { rep.count("points.oracle_inconclusive"); continue; }
            let lin = best.is_some();
            if src { feasible_pts += 1; }
            if src != lin {
                // which side? a source-feasible point outside a published range is also a C07 failure
                let mut outside = Vec::new();
                if src { for (i, name) in &side.decl_idx { let _ = i; if !in_type(l.domain().get(name).unwrap().get_type(), env[name]) { outside.push(name.clone()); } } }
                let prop = if !outside.is_empty() { "C07" } else { "C01" };
                let class = classify_f1(m, l, &env, src);
                rep.fail(json!({"prop": prop, "kind": if src { "feasible-point-cut-off" } else { "infeasible-point-let-in" }, "class": class,
                    "input": text, "coq": model(m), "assignment": env, "source_feasible": src, "linear_extension_exists": lin, "outside_published_range": outside,
                    "linear_model": l.to_string().replace('\n', " | ")}));
                continue;
            }
            if src {
                if let (Some(sv), Some(lv)) = (eval(&m.objective().rhs, &env), best) {
                    if dirsign != 0 && (sv - lv).abs() > 1e-6 * sv.abs().max(1.0) {
                        rep.fail(json!({"prop":"C02","kind":"objective-mismatch","class":"unclassified","input": text, "coq": model(m), "assignment": env, "source_objective": sv, "best_linear_objective": lv, "linear_model": l.to_string().replace('\n', " | ")}));
                    }
                    rep.count("points.objective_compared");
                }
            }
        }
        if feasible_pts > 0 { rep.count("nontrivial.has_feasible_point"); }
        if idx % 53 == 0 { rep.sample(json!({"model": text, "linear": l.to_string().replace('\n', " | "), "stream": stream}), 10); }
    }
    rep.add("cases", all.len() as u64);
    rep.write(&format!("{outdir}/report.json"));
}

fn has_nonfinite_const(e: &Exp) -> bool {
    match e {
        Exp::Number(v) => !v.is_finite(),
        Exp::Variable(_) => false,
        Exp::Abs(x) | Exp::Not(x) | Exp::UnOp(_, x) => has_nonfinite_const(x),
        Exp::Min(l) | Exp::Max(l) | Exp::And(l) | Exp::Or(l) => l.iter().any(has_nonfinite_const),
        Exp::Xor(a, c) | Exp::Implies(a, c) | Exp::Iff(a, c) | Exp::BinOp(_, a, c) => has_nonfinite_const(a) || has_nonfinite_const(c),
    }
}

/// placeholder classifier (no open compiler-core findings are listed at present)
fn classify_f1(_m: &Model, _l: &rooc::LinearModel, _env: &IndexMap<String, f64>, _src: bool) -> &'static str { "unclassified" }
