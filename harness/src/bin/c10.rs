//! C10 harness: Exp::simplify / Exp::flatten on the implementation.
//!  * prints one Coq `case` term per line (input, impl simplify, impl flatten) for the correspondence check
//!  * evaluates the property itself on the implementation (value preservation on a grid of assignments,
//!    idempotence, division-by-zero never rewritten away) = the failing-input search.
use harness::{coqfmt as cq, eval::*, gens::*, models::LinSide, report::Report, rng::Rng};
use indexmap::IndexMap;
use rooc::model_transformer::Exp;
use rooc::{Linearizer, OptimizationType, RoocParser};
use serde_json::json;
use std::io::Write;

// ---------- part (b): two programs that differ only in how their constants are written
#[derive(Clone)]
enum Item { Coef(f64, usize), Div(f64, usize), Plain(usize), Const(f64) }
const OPERANDS: [&str; 8] = ["x", "y", "z", "max { x, y }", "min { x, z }", "abs { z }", "(x + y)", "abs { x - y }"];
/// one way of writing the constant `v`; `consts` collects the named constants it needs
fn spell(r: &mut Rng, v: f64, consts: &mut Vec<(String, f64)>) -> String {
    let lit = |x: f64| if x < 0.0 { format!("-{}", -x) } else { format!("{}", x) };
    let mut named = |x: f64, consts: &mut Vec<(String, f64)>| -> String {
        if let Some((n, _)) = consts.iter().find(|(_, c)| *c == x) { return n.clone(); }
        let n = format!("K{}", consts.len()); consts.push((n.clone(), x)); n
    };
    match r.below(9) {
        0 | 1 => lit(v),
        2 => format!("({} + {})", lit(1.0), lit(v - 1.0)).replace("+ -", "- "),
        3 => format!("(0 - {})", lit(-v)).replace("- -", "+ "),
        4 => named(v, consts),
        5 => format!("-{}", named(-v, consts)),
        6 => format!("-({} + {})", lit(1.0), lit(-v - 1.0)).replace("+ -", "- "),
        7 => format!("({} * {})", named(2.0 * v, consts), lit(0.5)),
        _ => format!("({})", lit(v)),
    }
}
fn render_item(r: &mut Rng, it: &Item, consts: &mut Vec<(String, f64)>) -> String {
    match it {
        Item::Coef(v, e) => {
            let o = OPERANDS[*e];
            // the implicit product needs a plain literal and a plain variable
            if *e < 3 && r.below(5) == 0 { return format!("{}{}", if *v < 0.0 { format!("-{}", -v) } else { format!("{}", v) }, o); }
            let c = spell(r, *v, consts);
            if r.below(2) == 0 { format!("{} * {}", c, o) } else { format!("{} * {}", o, c) }
        }
        Item::Div(v, e) => format!("{} / {}", OPERANDS[*e], spell(r, *v, consts)),
        Item::Plain(e) => OPERANDS[*e].to_string(),
        Item::Const(v) => spell(r, *v, consts),
    }
}
struct Twin { dir: &'static str, obj: Vec<Item>, rows: Vec<(Vec<Item>, &'static str, Item)> }
fn gen_twin(r: &mut Rng) -> Twin {
    let vals = [2.0, -2.0, 0.5, 3.0, -1.0, -0.5, 4.0, -3.0, 1.5];
    let item = |r: &mut Rng| -> Item {
        let e = r.below(OPERANDS.len());
        match r.below(6) { 0 | 1 | 2 => Item::Coef(*r.pick(&vals), e), 3 => Item::Div(if r.below(12) == 0 { 0.0 } else { *r.pick(&vals) }, e), 4 => Item::Plain(e), _ => Item::Const(*r.pick(&vals)) }
    };
    let nrows = 1 + r.below(3);
    let mut rows = Vec::new();
    for _ in 0..nrows {
        let nt = 1 + r.below(2);
        let mut lhs: Vec<Item> = (0..nt).map(|_| item(r)).collect();
        if lhs.iter().all(|i| matches!(i, Item::Const(_))) { lhs.push(Item::Plain(r.below(3))); }
        let rhs_v = *r.pick(&[-2.0, 2.0, 10.0, -4.0, 6.0, 0.5, -0.5, 3.0]);
        rows.push((lhs, *r.pick(&["<=", ">=", "<=", ">=", "="]), Item::Const(rhs_v)));
    }
    let no = 1 + r.below(2);
    let obj: Vec<Item> = (0..no).map(|_| { let e = r.below(3); if r.below(2) == 0 { Item::Coef(*r.pick(&vals), e) } else { Item::Plain(e) } }).collect();
    Twin { dir: *r.pick(&["min", "max"]), obj, rows }
}
fn render_twin(r: &mut Rng, t: &Twin) -> String {
    let mut consts: Vec<(String, f64)> = Vec::new();
    let obj = t.obj.iter().map(|i| render_item(r, i, &mut consts)).collect::<Vec<_>>().join(" + ");
    let mut s = format!("{} {}\ns.t.\n", t.dir, obj);
    for (lhs, cmp, rhs) in &t.rows {
        let l = lhs.iter().map(|i| render_item(r, i, &mut consts)).collect::<Vec<_>>().join(" + ");
        s += &format!("    {} {} {}\n", l, cmp, render_item(r, rhs, &mut consts));
    }
    if !consts.is_empty() { s += "where\n"; for (n, v) in &consts { s += &format!("    let {} = {}\n", n, v); } }
    s += "define\n    x as Real(-10, 10)\n    y as Real(-5, 8)\n    z as Real(-100, 100)\n";
    s
}
fn twins(r: &mut Rng, n: usize, rep: &mut Report) {
    let declared: Vec<String> = ["x", "y", "z"].iter().map(|s| s.to_string()).collect();
    let grids: [&[f64]; 3] = [&[-10.0, 10.0, 0.0, 1.0, -1.0, 2.5, -3.0, 4.0, 20.0], &[-5.0, 8.0, 0.0, 1.0, -1.0, 2.5, -3.0], &[-100.0, 100.0, 0.0, 1.0, -2.0, 7.0, 15.0, -12.0]];
    let compile = |src: &str| -> Result<Result<rooc::LinearModel, String>, ()> {
        if RoocParser::new(src.to_string()).parse().is_err() { return Err(()); }
        let m = match std::panic::catch_unwind(|| RoocParser::new(src.to_string()).parse_and_transform(vec![], &IndexMap::new())) { Ok(Ok(m)) => m, Ok(Err(e)) => return Ok(Err(format!("transform: {}", e.chars().take(160).collect::<String>()))), Err(_) => return Ok(Err("panic in transform".into())) };
        match std::panic::catch_unwind(|| Linearizer::linearize(m)) { Ok(Ok(l)) => Ok(Ok(l)), Ok(Err(e)) => Ok(Err(format!("linearize: {}", harness::models::lerr_kind(&e)))), Err(_) => Ok(Err("panic in linearize".into())) }
    };
    for _ in 0..n {
        let t = gen_twin(r);
        let a = render_twin(r, &t); let b = render_twin(r, &t);
        rep.count("twins.generated");
        if a == b { rep.count("twins.identical_spelling"); continue; }
        let (la, lb) = match (compile(&a), compile(&b)) { (Ok(x), Ok(y)) => (x, y), _ => { rep.count("twins.generator_syntax_error"); continue; } };
        match (&la, &lb) {
            (Err(_), Err(_)) => { rep.count("twins.both_rejected"); continue; }
            (Ok(_), Err(e)) | (Err(e), Ok(_)) => { rep.fail(json!({"kind":"respelling-changes-acceptance","class":"unclassified","input":a,"twin":b,"error":e})); continue; }
            _ => {}
        }
        let (la, lb) = (la.unwrap(), lb.unwrap());
        rep.count("twins.both_compile");
        let (sa, sb) = (LinSide::new(&la, &declared), LinSide::new(&lb, &declared));
        if sa.bool_aux.len() > 8 || sb.bool_aux.len() > 8 || sa.cont_aux.len() > 6 || sb.cont_aux.len() > 6 { rep.count("twins.skipped_too_large"); continue; }
        let dirsign: i8 = match la.optimization_type() { OptimizationType::Min => -1, OptimizationType::Max => 1, _ => 0 };
        let total: usize = grids.iter().map(|g| g.len()).product();
        let mut reported = false;
        for code in 0..total {
            let mut c = code; let mut env = IndexMap::new();
            for (j, name) in declared.iter().enumerate() { env.insert(name.clone(), grids[j][c % grids[j].len()]); c /= grids[j].len(); }
            let (va, vb) = (sa.best_extension(&env, dirsign), sb.best_extension(&env, dirsign));
            rep.count("twins.points_compared");
            let same = match (va, vb) { (None, None) => true, (Some(p), Some(q)) => p.is_nan() || q.is_nan() || (p - q).abs() <= 1e-6 * p.abs().max(q.abs()).max(1.0), _ => false };
            if !same && !reported { reported = true; rep.fail(json!({"kind":"respelling-changes-compiled-model","class":"unclassified","input":a,"twin":b,"assignment":env,"first":format!("{:?}", va),"second":format!("{:?}", vb)})); }
        }
    }
}

fn main() {
    let args: Vec<String> = std::env::args().collect();
    let seed: u64 = args[1].parse().unwrap();
    let n_random: usize = args[2].parse().unwrap();
    let exhaustive_ops: usize = args[3].parse().unwrap(); // all trees with <= this many internal nodes
    let sample_next: usize = args[4].parse().unwrap();    // random sample of the next level
    let outdir = &args[5];
    let mut r = Rng::new(seed);
    let mut rep = Report::default();
    let mut cases = std::io::BufWriter::new(std::fs::File::create(format!("{outdir}/cases.txt")).unwrap());
    let mut inputs = std::io::BufWriter::new(std::fs::File::create(format!("{outdir}/inputs.txt")).unwrap());
    let grid = [0.0, 1.0, 2.0, -1.0, 0.5];

    let mut all: Vec<(Exp, &'static str)> = Vec::new();
    // corpus: the rewrites the repository's own tests pin, plus the known-defect witnesses
    let v = |s: &str| Exp::Variable(s.to_string());
    let n = |x: f64| Exp::Number(x);
    use rooc::BinOp::*;
    let corpus = vec![
        Exp::BinOp(Mul, b(n(0.0)), b(Exp::BinOp(Div, b(v("y")), b(n(0.0))))),
        Exp::Or(vec![n(0.0), v("x")]),
        Exp::Or(vec![n(1.0), Exp::BinOp(Div, b(v("x")), b(n(0.0)))]),
        Exp::And(vec![n(1.0), v("x")]),
        Exp::BinOp(Sub, b(v("a")), b(Exp::BinOp(Sub, b(v("b")), b(v("c"))))),
        Exp::BinOp(Div, b(v("a")), b(Exp::BinOp(Div, b(v("b")), b(v("c"))))),
        Exp::BinOp(Div, b(n(0.0)), b(v("x"))),
        Exp::BinOp(Div, b(Exp::BinOp(Div, b(n(1.0)), b(n(0.0)))), b(n(2.0))),
        Exp::BinOp(Mul, b(Exp::BinOp(Add, b(v("x")), b(v("y")))), b(Exp::BinOp(Sub, b(v("x")), b(n(2.0))))),
        Exp::BinOp(Mul, b(Exp::UnOp(rooc::UnOp::Neg, b(v("x")))), b(Exp::UnOp(rooc::UnOp::Neg, b(v("y"))))),
    ];
    for e in corpus { all.push((e, "corpus")); }
    // exhaustive small trees
    let leaves = vec![n(0.0), n(1.0), n(2.0), n(-0.0), v("x"), v("y")];
    let mut memo = Vec::new();
    for ops in 0..=exhaustive_ops { for e in enumerate(ops, &leaves, &mut memo) { all.push((e, "exhaustive")); } }
    if sample_next > 0 {
        let small = vec![n(0.0), n(1.0), n(2.0), v("x"), v("y")];
        let mut memo2 = Vec::new();
        let next = enumerate(exhaustive_ops + 1, &small, &mut memo2);
        for _ in 0..sample_next { all.push((next[r.below(next.len())].clone(), "sampled-next-level")); }
    }
    let g = ExpGen::default();
    for i in 0..n_random { let depth = 2 + (i % 5); all.push((g.exp(&mut r, depth), "random")); }
    let garith = ExpGen { nvars: 3, logic_weight: 5, allow_empty_nary: false };
    for i in 0..n_random / 2 { let depth = 3 + (i % 4); all.push((garith.exp(&mut r, depth), "random-arith")); }

    for (idx, (e, stream)) in all.iter().enumerate() {
        rep.count(&format!("stream.{stream}"));
        rep.count(&format!("size.{}", size(e).min(20)));
        let res = std::panic::catch_unwind(|| { let s = e.simplify(); let f = e.clone().flatten(); let ss = s.simplify(); (s, f, ss) });
        let (s, f, ss) = match res {
            Ok(x) => x,
            Err(_) => { rep.fail(json!({"kind":"panic","input": e.to_string(), "coq": cq::exp(e)})); continue; }
        };
        let line = format!("(mkcase {} {} {})", cq::exp(e), cq::exp(&s), cq::exp(&f));
        rep.distinct_hash(&line);
        writeln!(cases, "{line}").unwrap();
        writeln!(inputs, "{}", e).unwrap();
        if !exp_eq(&s, e) { rep.count("nontrivial.simplify_changed"); }
        if !exp_eq(&f, e) { rep.count("nontrivial.flatten_changed"); }
        // ---- property oracle on the implementation
        if !exp_eq(&ss, &s) {
            rep.fail(json!({"kind":"not-idempotent","input": e.to_string(), "coq": cq::exp(e), "simplify": s.to_string(), "simplify_twice": ss.to_string()}));
        }
        let mut vars = Vec::new(); vars_of(e, &mut vars);
        if vars.len() <= 3 {
            for env in assignments(&vars, &grid) {
                rep.count("points_evaluated");
                let _ = harness::eval::take_noise();
                let v0 = eval(e, &env);
                let vs = eval(&s, &env);
                let vf = eval(&f, &env);
                // a truth test or a zero-divisor test hit f64 rounding noise in one of the three spellings: not comparable in f64
                if harness::eval::take_noise() { rep.count("points_skipped.truth_test_on_rounding_noise"); continue; }
                let close = |a: f64, b: f64| (a - b).abs() <= 1e-9 * a.abs().max(b.abs()).max(1.0);
                match v0 {
                    Some(a) if a.is_finite() => {
                        match vs { Some(x) if close(a, x) => {}, _ => { rep.fail(json!({"kind":"simplify-changes-value","class": if typed_ok(e, &env) { "unclassified" } else { "nonbinary-operand-of-and-or" },"input": e.to_string(), "coq": cq::exp(e), "assignment": env, "original": a, "simplified": s.to_string(), "simplified_value": vs})); } }
                        match vf { Some(x) if close(a, x) => {}, _ => { rep.fail(json!({"kind":"flatten-changes-value","input": e.to_string(), "coq": cq::exp(e), "assignment": env, "original": a, "flattened": f.to_string(), "flattened_value": vf})); } }
                    }
                    Some(_) => {}
                    None => {
                        // division by zero (or empty aggregate) must not be rewritten away by simplify
                        if vs.is_some() && hits_div_zero(e, &env) {
                            rep.fail(json!({"kind":"undefined-rewritten-away","class": if has_zero_times_undefined(e, &env) { "zero-times-undefined" } else if has_absorbing_logic_next_to_undefined(e, &env) { "absorbing-logic-constant-next-to-undefined" } else if !typed_ok(e, &env) { "nonbinary-operand-of-and-or" } else { "unclassified" },"input": e.to_string(), "coq": cq::exp(e), "assignment": env, "simplified": s.to_string(), "simplified_value": vs}));
                        }
                        rep.count("points_undefined");
                    }
                }
            }
        }
        if idx % 997 == 0 { rep.sample(json!({"input": e.to_string(), "simplify": s.to_string(), "flatten": f.to_string(), "stream": stream}), 12); }
    }
    twins(&mut r, if n_random > 10000 { 2500 } else { 400 }, &mut rep);
    rep.add("cases", all.len() as u64);
    rep.write(&format!("{outdir}/report.json"));
}
