//! C10 harness: Exp::simplify / Exp::flatten on the implementation.
//!  * prints one Coq `case` term per line (input, impl simplify, impl flatten) for the correspondence check
//!  * evaluates the property itself on the implementation (value preservation on a grid of assignments,
//!    idempotence, division-by-zero never rewritten away) = the failing-input search.
use harness::{coqfmt as cq, eval::*, gens::*, report::Report, rng::Rng};
use rooc::model_transformer::Exp;
use serde_json::json;
use std::io::Write;

fn main() {
    let args: Vec<String> = std::env::args().collect();
    let seed: u64 = args[1].parse().unwrap();
    let n_random: usize = args[2].parse().unwrap();
    let exhaustive_ops: usize = args[3].parse().unwrap(); // all trees with <= this many internal nodes
    let sample_next: usize = args[4].parse().unwrap();    // random sample of the next level
    let outdir = &args[5];
    let mut r = Rng::new(seed);
    let mut rep = Report::default();
    let mut cases = std::io::BufWriter::new(std::fs::File::create(format!("{outdir}/cases.txt")).unwrap());
    let mut inputs = std::io::BufWriter::new(std::fs::File::create(format!("{outdir}/inputs.txt")).unwrap());
    let grid = [0.0, 1.0, 2.0, -1.0, 0.5];

    let mut all: Vec<(Exp, &'static str)> = Vec::new();
    // corpus: the rewrites the repository's own tests pin, plus the known-defect witnesses
    let v = |s: &str| Exp::Variable(s.to_string());
    let n = |x: f64| Exp::Number(x);
    use rooc::BinOp::*;
    let corpus = vec![
        Exp::BinOp(Mul, b(n(0.0)), b(Exp::BinOp(Div, b(v("y")), b(n(0.0))))),
        Exp::Or(vec![n(0.0), v("x")]),
        Exp::Or(vec![n(1.0), Exp::BinOp(Div, b(v("x")), b(n(0.0)))]),
        Exp::And(vec![n(1.0), v("x")]),
        Exp::BinOp(Sub, b(v("a")), b(Exp::BinOp(Sub, b(v("b")), b(v("c"))))),
        Exp::BinOp(Div, b(v("a")), b(Exp::BinOp(Div, b(v("b")), b(v("c"))))),
        Exp::BinOp(Div, b(n(0.0)), b(v("x"))),
        Exp::BinOp(Div, b(Exp::BinOp(Div, b(n(1.0)), b(n(0.0)))), b(n(2.0))),
        Exp::BinOp(Mul, b(Exp::BinOp(Add, b(v("x")), b(v("y")))), b(Exp::BinOp(Sub, b(v("x")), b(n(2.0))))),
        Exp::BinOp(Mul, b(Exp::UnOp(rooc::UnOp::Neg, b(v("x")))), b(Exp::UnOp(rooc::UnOp::Neg, b(v("y"))))),
    ];
    for e in corpus { all.push((e, "corpus")); }
    // exhaustive small trees
    let leaves = vec![n(0.0), n(1.0), n(2.0), n(-0.0), v("x"), v("y")];
    let mut memo = Vec::new();
    for ops in 0..=exhaustive_ops { for e in enumerate(ops, &leaves, &mut memo) { all.push((e, "exhaustive")); } }
    if sample_next > 0 {
        let small = vec![n(0.0), n(1.0), n(2.0), v("x"), v("y")];
        let mut memo2 = Vec::new();
        let next = enumerate(exhaustive_ops + 1, &small, &mut memo2);
        for _ in 0..sample_next { all.push((next[r.below(next.len())].clone(), "sampled-next-level")); }
    }
    let g = ExpGen::default();
    for i in 0..n_random { let depth = 2 + (i % 5); all.push((g.exp(&mut r, depth), "random")); }
    let garith = ExpGen { nvars: 3, logic_weight: 5, allow_empty_nary: false };
    for i in 0..n_random / 2 { let depth = 3 + (i % 4); all.push((garith.exp(&mut r, depth), "random-arith")); }

    for (idx, (e, stream)) in all.iter().enumerate() {
        rep.count(&format!("stream.{stream}"));
        rep.count(&format!("size.{}", size(e).min(20)));
        let res = std::panic::catch_unwind(|| { let s = e.simplify(); let f = e.clone().flatten(); let ss = s.simplify(); (s, f, ss) });
        let (s, f, ss) = match res {
            Ok(x) => x,
            Err(_) => { rep.fail(json!({"kind":"panic","input": e.to_string(), "coq": cq::exp(e)})); continue; }
        };
        let line = format!("(mkcase {} {} {})", cq::exp(e), cq::exp(&s), cq::exp(&f));
        rep.distinct_hash(&line);
        writeln!(cases, "{line}").unwrap();
        writeln!(inputs, "{}", e).unwrap();
        if !exp_eq(&s, e) { rep.count("nontrivial.simplify_changed"); }
        if !exp_eq(&f, e) { rep.count("nontrivial.flatten_changed"); }
        // ---- property oracle on the implementation
        if !exp_eq(&ss, &s) {
            rep.fail(json!({"kind":"not-idempotent","input": e.to_string(), "coq": cq::exp(e), "simplify": s.to_string(), "simplify_twice": ss.to_string()}));
        }
        let mut vars = Vec::new(); vars_of(e, &mut vars);
        if vars.len() <= 3 {
            for env in assignments(&vars, &grid) {
                rep.count("points_evaluated");
                let _ = harness::eval::take_noise();
                let v0 = eval(e, &env);
                let vs = eval(&s, &env);
                let vf = eval(&f, &env);
                // a truth test or a zero-divisor test hit f64 rounding noise in one of the three spellings: not comparable in f64
                if harness::eval::take_noise() { rep.count("points_skipped.truth_test_on_rounding_noise"); continue; }
                let close = |a: f64, b: f64| (a - b).abs() <= 1e-9 * a.abs().max(b.abs()).max(1.0);
                match v0 {
                    Some(a) if a.is_finite() => {
                        match vs { Some(x) if close(a, x) => {}, _ => { rep.fail(json!({"kind":"simplify-changes-value","class": if typed_ok(e, &env) { "unclassified" } else { "nonbinary-operand-of-and-or" },"input": e.to_string(), "coq": cq::exp(e), "assignment": env, "original": a, "simplified": s.to_string(), "simplified_value": vs})); } }
                        match vf { Some(x) if close(a, x) => {}, _ => { rep.fail(json!({"kind":"flatten-changes-value","input": e.to_string(), "coq": cq::exp(e), "assignment": env, "original": a, "flattened": f.to_string(), "flattened_value": vf})); } }
                    }
                    Some(_) => {}
                    None => {
                        // division by zero (or empty aggregate) must not be rewritten away by simplify
                        if vs.is_some() && hits_div_zero(e, &env) {
                            rep.fail(json!({"kind":"undefined-rewritten-away","class": if has_zero_times_undefined(e, &env) { "zero-times-undefined" } else if has_absorbing_logic_next_to_undefined(e, &env) { "absorbing-logic-constant-next-to-undefined" } else if !typed_ok(e, &env) { "nonbinary-operand-of-and-or" } else { "unclassified" },"input": e.to_string(), "coq": cq::exp(e), "assignment": env, "simplified": s.to_string(), "simplified_value": vs}));
                        }
                        rep.count("points_undefined");
                    }
                }
            }
        }
        if idx % 997 == 0 { rep.sample(json!({"input": e.to_string(), "simplify": s.to_string(), "flatten": f.to_string(), "stream": stream}), 12); }
    }
    rep.add("cases", all.len() as u64);
    rep.write(&format!("{outdir}/report.json"));
}
