//! C11 harness: RoocParser::format.
//!  (a) expression trees: fully parenthesised text of a known tree -> format -> tokens of the formatted objective
//!      (compared in Coq with the model printer's rendering of the same tree);
//!  (b) whole programs (corpus extracted from the repository + generated expression programs): format parses,
//!      formats to itself, and compiles to exactly the same model.
use harness::{coqfmt as cq, models::*, report::Report, rng::Rng};
use indexmap::IndexMap;
use rooc::{BinOp, RoocParser, UnOp};
use serde_json::json;
use std::io::{BufRead, Write};

#[derive(Clone)]
enum T { Leaf(usize), Bin(BinOp, Box<T>, Box<T>), Pre(UnOp, Box<T>) }
const OPS: &[BinOp] = &[BinOp::Add, BinOp::Sub, BinOp::Mul, BinOp::Div, BinOp::And, BinOp::Or, BinOp::Xor, BinOp::Implies, BinOp::Iff];
const NAMES: &[&str] = &["a", "b", "c", "d", "e", "f", "g", "h", "k", "m", "n", "p", "q", "r", "s", "t"];

fn gen_tree(r: &mut Rng, depth: usize, next: &mut usize) -> T {
    if depth == 0 || r.chance(1, 4) || *next >= NAMES.len() - 1 { let i = *next; *next += 1; return T::Leaf(i.min(NAMES.len() - 1)); }
    if r.chance(1, 6) { return T::Pre(if r.chance(1, 2) { UnOp::Neg } else { UnOp::Not }, Box::new(gen_tree(r, depth - 1, next))); }
    let op = OPS[r.below(9)];
    let l = gen_tree(r, depth - 1, next);
    let rr = gen_tree(r, depth - 1, next);
    T::Bin(op, Box::new(l), Box::new(rr))
}
fn opw(op: BinOp) -> &'static str { match op { BinOp::Add => "+", BinOp::Sub => "-", BinOp::Mul => "*", BinOp::Div => "/", BinOp::And => "and", BinOp::Or => "or", BinOp::Xor => "xor", BinOp::Implies => "implies", BinOp::Iff => "iff" } }
fn full(t: &T) -> String {
    match t { T::Leaf(i) => NAMES[*i].to_string(), T::Bin(op, l, r) => format!("({} {} {})", full(l), opw(*op), full(r)), T::Pre(UnOp::Neg, u) => format!("-({})", full(u)), T::Pre(UnOp::Not, u) => format!("not ({})", full(u)) }
}
fn coq_tree(t: &T) -> String {
    match t { T::Leaf(i) => format!("(Leaf {}%nat)", i), T::Bin(op, l, r) => format!("(Bin {} {} {})", cq::binop(op), coq_tree(l), coq_tree(r)), T::Pre(op, u) => format!("(Pre {} {})", cq::unop(op), coq_tree(u)) }
}
/// tokens of a formatted expression line, as Gallina ptokens (atoms by name index)
fn tokenize(s: &str) -> Option<String> {
    let cs: Vec<char> = s.chars().collect();
    let mut out: Vec<String> = Vec::new();
    let mut i = 0;
    while i < cs.len() {
        let c = cs[i];
        if c == ' ' { i += 1; continue; }
        if c == '(' { out.push("PLP".into()); i += 1; continue; }
        if c == ')' { out.push("PRP".into()); i += 1; continue; }
        if c == '-' {
            let binary = i + 1 < cs.len() && cs[i + 1] == ' ';
            out.push(if binary { "PT (TInfix Sub)".into() } else { "PT (TPrefix Neg)".into() }); i += 1; continue;
        }
        if c == '+' { out.push("PT (TInfix Add)".into()); i += 1; continue; }
        if c == '*' { out.push("PT (TInfix Mul)".into()); i += 1; continue; }
        if c == '/' { out.push("PT (TInfix Div)".into()); i += 1; continue; }
        if c == '!' { out.push("PT (TPrefix UNot)".into()); i += 1; continue; }
        if c.is_alphabetic() {
            let mut j = i; while j < cs.len() && (cs[j].is_alphanumeric()) { j += 1; }
            let w: String = cs[i..j].iter().collect();
            out.push(match w.as_str() { "and" => "PT (TInfix BAnd)".into(), "or" => "PT (TInfix BOr)".into(), "xor" => "PT (TInfix BXor)".into(), "implies" => "PT (TInfix BImplies)".into(), "iff" => "PT (TInfix BIff)".into(), "not" => "PT (TPrefix UNot)".into(),
                _ => format!("PT (TAtom {}%nat)", NAMES.iter().position(|n| *n == w)?) });
            i = j; continue;
        }
        return None;
    }
    Some(format!("[{}]", out.join("; ")))
}

fn check_program(src: &str, rep: &mut Report, stream: &str) {
    // a fixed probe of a recorded finding carries the class of that finding (KNOWN_FINDINGS.json matches on it)
    let cls = stream.strip_prefix("probe:").unwrap_or("unclassified");
    let p = RoocParser::new(src.to_string());
    let f1 = match std::panic::catch_unwind(|| p.format()) { Ok(Ok(f)) => f, Ok(Err(_)) => { rep.count(&format!("{stream}.does_not_parse")); return; } Err(_) => { rep.fail(json!({"prop":"C18","kind":"panic","input":src})); return; } };
    rep.count(&format!("{stream}.formatted"));
    let p2 = RoocParser::new(f1.clone());
    let f2 = match p2.format() { Ok(f) => f, Err(e) => { rep.fail(json!({"prop":"C11","kind":"formatted-text-does-not-parse","class":cls,"input":src,"formatted":f1,"error":format!("{:?}", e).chars().take(200).collect::<String>()})); return; } };
    if f2 != f1 { rep.fail(json!({"prop":"C11","kind":"format-not-idempotent","class":cls,"input":src,"formatted":f1,"formatted_twice":f2})); }
    let m1 = p.parse_and_transform(vec![], &IndexMap::new());
    let m2 = p2.parse_and_transform(vec![], &IndexMap::new());
    match (m1, m2) {
        (Ok(a), Ok(b)) => { rep.count(&format!("{stream}.compiled_both")); if let Err(why) = model_eq(&a, &b) { rep.fail(json!({"prop":"C11","kind":"formatting-changes-the-compiled-model","class":cls,"input":src,"formatted":f1,"difference":why})); } }
        (Ok(_), Err(e)) => rep.fail(json!({"prop":"C11","kind":"formatting-makes-a-valid-program-invalid","class":cls,"input":src,"formatted":f1,"error":e.chars().take(200).collect::<String>()})),
        (Err(_), _) => rep.count(&format!("{stream}.original_does_not_compile")),
    }
}

fn main() {
    let args: Vec<String> = std::env::args().collect();
    let seed: u64 = args[1].parse().unwrap(); let n: usize = args[2].parse().unwrap();
    let corpus_path = &args[3]; let outdir = &args[4];
    let mut r = Rng::new(seed ^ 0xC11);
    let mut rep = Report::default();
    let mut cases = std::io::BufWriter::new(std::fs::File::create(format!("{outdir}/cases.txt")).unwrap());
    let mut inputs = std::io::BufWriter::new(std::fs::File::create(format!("{outdir}/inputs.txt")).unwrap());
    std::panic::set_hook(Box::new(|_| {}));
    // (a) expression trees
    let mut fixed: Vec<T> = Vec::new();
    let l = |i: usize| Box::new(T::Leaf(i));
    for o1 in OPS { for o2 in OPS {
        fixed.push(T::Bin(*o1, l(0), Box::new(T::Bin(*o2, l(1), l(2)))));
        fixed.push(T::Bin(*o1, Box::new(T::Bin(*o2, l(0), l(1))), l(2)));
    } }
    // every prefix operator over every binary operator, and under it on both sides
    for u in [UnOp::Neg, UnOp::Not] { for o in OPS {
        fixed.push(T::Pre(u, Box::new(T::Bin(*o, l(0), l(1)))));
        fixed.push(T::Bin(*o, Box::new(T::Pre(u, l(0))), l(1)));
        fixed.push(T::Bin(*o, l(0), Box::new(T::Pre(u, l(1)))));
        for u2 in [UnOp::Neg, UnOp::Not] { fixed.push(T::Bin(*o, l(0), Box::new(T::Pre(u, Box::new(T::Pre(u2, l(1))))))); }
    } }
    for i in 0..n { let mut next = 0; fixed.push(gen_tree(&mut r, 2 + i % 4, &mut next)); }
    for (idx, t) in fixed.iter().enumerate() {
        let text = full(t);
        let mut names: Vec<&str> = NAMES.to_vec(); names.dedup();
        let src = format!("min {}\ns.t.\n    1 >= 0\ndefine\n    {} as Boolean", text, names.join(", "));
        let p = RoocParser::new(src.clone());
        match p.format() {
            Ok(f) => {
                let first = f.lines().next().unwrap_or("").trim().to_string();
                let body = first.strip_prefix("min ").unwrap_or(&first).to_string();
                match tokenize(&body) {
                    Some(toks) => {
                        let line = format!("(mkC11 {} {})", coq_tree(t), toks);
                        rep.distinct_hash(&line);
                        writeln!(cases, "{line}").unwrap(); writeln!(inputs, "{text}  ==>  {body}").unwrap();
                        rep.count("trees.formatted");
                        if body.contains('(') { rep.count("nontrivial.keeps_some_parentheses"); }
                        if idx % 97 == 0 { rep.sample(json!({"tree_text": text, "formatted": body}), 10); }
                    }
                    None => rep.count("trees.untokenizable"),
                }
            }
            Err(_) => rep.count("trees.does_not_parse"),
        }
        check_program(&src, &mut rep, "treeprog");
    }
    // (a') arithmetic expression snippets over real variables, the shapes the property names
    let atoms = ["x", "y", "z", "2", "0.5", "-3", "(-3)", "2x", "3(x + y)", "(x + y)2", "-(-2)", "-(x)", "abs{x - y}", "max{x, y, 2}", "min{x, -y}", "x_1", "x_{1 + 1}", "\\x_1", "A[0]", "A[1 + 1]", "len(A)", "sum(i in A){ i * x_i }", "sum(i in 0..2){ x_i - y }", "prod(i in 1..=2){ i }", "avg{x, y}", "n", "-n", "-A[1]", "- 2", "(x)", "((x - y))"];
    let aops = ["+", "-", "*", "/"];
    let mut snippets: Vec<String> = Vec::new();
    for a in atoms.iter() { snippets.push(a.to_string()); for o in aops { for b in atoms.iter().take(12) { snippets.push(format!("{a} {o} {b}")); snippets.push(format!("x {o} ({a} {o} {b})")); snippets.push(format!("({a} {o} {b}) {o} z")); snippets.push(format!("-({a} {o} {b})")); } } }
    for _ in 0..n { let k = 2 + r.below(4); let mut e = atoms[r.below(atoms.len())].to_string();
        for _ in 0..k { let o = aops[r.below(4)]; let b = atoms[r.below(atoms.len())]; e = match r.below(4) { 0 => format!("({e}) {o} {b}"), 1 => format!("{b} {o} ({e})"), 2 => format!("-({e}) {o} {b}"), _ => format!("{e} {o} {b}") }; }
        snippets.push(e); }
    // a number written against every kind of operand with an explicit `*` (the implied form `2x` exists only for names)
    for k in ["2", "0.5", "3"] { for b in ["A[0]", "A[1 + 1]", "len(A)", "x_1", "x_{1 + 1}", "sum(i in A){ i }", "abs{x}", "max{x, y}", "n", "(x + y)", "x"] {
        snippets.push(format!("{k} * {b}")); snippets.push(format!("{k} * {b} * x + y")); snippets.push(format!("y - {k} * {b}")); } }
    for sn in snippets.iter() {
        let src = format!("min {sn}\ns.t.\n    c_1: {sn} >= 1\n    x + y + z + x_0 + x_1 + x_2 + x_3 >= 0\nwhere\n    let A = [1, 2, 3]\n    let n = 4\ndefine\n    x, y, z as Real\n    x_i as Real for i in 0..4");
        check_program(&src, &mut rep, "snippet");
    }
    // (a'') names of every shape as variables, in declarations and as constraint names; constants of every kind
    let shapes = ["x", "_t", "__h", "x_1", "\\x_1", "\\_t_1", "\\__u_v", "$aux", "\\$a_b", "x_A", "y_1_2", "\\y_1_2", "set_A__2", "k10", "not_x", "min_cost", "Infinity2"];
    for a in shapes.iter() { for c in shapes.iter() {
        let decl_a = a; let decl_c = c;
        if a == c { continue; }
        let src = format!("min {a} + 2 * {c}\ns.t.\n    {a}: {a} - {c} >= 1\n    {c}: {c} <= 4\ndefine\n    {decl_a}, {decl_c} as Real");
        check_program(&src, &mut rep, "names");
    } }
    let consts = ["1", "0.5", "-3", "true", "false", "\"s\"", "\"a\\\"b\"", "\"tab\\tq\"", "[1, 2, 3]", "[]", "[[1, 2], [3]]", "[true, false]", "[\"a\", \"b\"]", "[\"q\\\"r\"]", "Graph { A -> [B, C: 10], B -> [], C }", "Graph { A -> [B: -2], B }", "1..3", "len([1, 2])", "[1, 2][0]", "-(2)", "2 * 3 + 1"];
    for c in consts.iter() {
        let src = format!("min x\ns.t.\n    x >= 1\nwhere\n    let k = {c}\n    let z = 2\ndefine\n    x as Real");
        check_program(&src, &mut rep, "consts");
    }
    let decls = ["x as Real(5)", "x as Real(-2.5)", "x as NonNegativeReal(3)", "x as Real(n)", "x as Real", "x as Real(0, 3)", "x as Real(-1.5, Infinity)", "x as Real(MinusInfinity, 2)", "x as NonNegativeReal", "x as NonNegativeReal(1, 2)", "x as Boolean", "x as IntegerRange(-2, 5)", "x as IntegerRange(n, n + 3)", "x as Real(A[0], A[1] * 2)", "x_i as Real for i in 0..3", "x_i as Boolean for i in A", "x_i_j as Real for i in 0..2, j in 1..=2", "x_u as Real for (u, v) in edges(G)", "x_i as IntegerRange(0, i + 1) for (e, i) in enumerate(A)", "x, y as Real\n    z as Boolean"];
    for d in decls.iter() {
        let src = format!("min 1\ns.t.\n    1 >= 0\nwhere\n    let n = 2\n    let A = [1, 2, 3]\n    let G = Graph {{ A -> [B: 2], B -> [A] }}\ndefine\n    {d}");
        check_program(&src, &mut rep, "decls");
    }
    let iters = ["x_i >= i for i in 0..3", "x_i >= i for i in 0..=2", "c_i: x_i + x_j >= 1 for i in 0..2, j in 1..3", "x_i or x_j for i in 0..2, j in 2..3", "sum(i in 0..3) { x_i } <= 2", "sum(i in 0..3, j in 0..2) { x_i * j } <= 2", "sum((v, i) in enumerate(A)) { v * x_i } <= 9", "max(i in 0..3) { x_i } <= 2", "min { x_0, x_1 } >= 0", "avg(i in 0..3) { x_i } <= 1", "prod(i in 1..3) { i } * x_0 <= 9", "x_{i + 1} >= x_i for i in 0..2", "x_{A[0] - 1} >= 0", "any(i in 0..3) { x_i }", "all { x_0, x_1 }", "xor(i in 0..2) { x_i }", "abs { x_0 - x_1 } <= 1 for k in 0..2", "x_i >= len(A) for i in range(0, 3)"];
    for it in iters.iter() {
        let src = format!("max sum(i in 0..3) {{ x_i }}\ns.t.\n    {it}\nwhere\n    let A = [1, 2, 3]\ndefine\n    x_i as Boolean for i in 0..3");
        check_program(&src, &mut rep, "iters");
    }
    // (a3) bare logic assertions, named and unnamed, iterated and not: the name prefix and the iteration clause must survive
    let asserts = ["pick: a or b", "a or b", "chain_i: z_i implies z_{i + 1} for i in 0..2", "not a", "nm: not (a and b)", "both: a and b", "k_i: z_i for i in 0..3", "imp: a implies b", "eq2: a iff b", "x1: a xor b", "any_i: z_i or a for i in 0..2", "nest: (a implies b) implies a", "all { a, b }", "one: any { a, b, z_0 }"];
    for it in asserts.iter() {
        let src = format!("solve\ns.t.\n    {it}\n    a + b <= 2\ndefine\n    a, b as Boolean\n    z_i as Boolean for i in 0..4");
        check_program(&src, &mut rep, "asserts");
    }
    // (a4) data literals of mixed numeric kinds and numbers at the edges of the decimal printer
    let mixed = ["[1.5, 2]", "[2, 1.5]", "[1, 2.5, 3]", "[[1.5, 2], [3]]", "[[1, 2], [3.5]]", "[0.000001, 1]", "[1000000, 0.5]", "0.000001", "123456789.125", "[-1, 2]", "[-1.5, 2]", "[1, -2]", "[true, 1]", "[0.0000001, 0.5]", "0.0000001", "[12345678901234567890.0, 1.5]", "[[0.0000001], [2.5]]", "[1.0, 2.0]", "[3.0, 2]"];
    for c in mixed.iter() {
        let src = format!("min x\ns.t.\n    x >= 1\nwhere\n    let k = {c}\ndefine\n    x as Real");
        check_program(&src, &mut rep, "consts");
    }
    // (a5) the witnesses of the recorded formatter findings F60-F64, each under the class of its finding
    let probes: [(&str, &str); 5] = [
        ("multi-line-string-constant", "min x\ns.t.\n    x >= 1\nwhere\n    let s = \"a\nb\"\ndefine\n    x as Real"),
        ("array-of-graphs-constant", "min x\ns.t.\n    x >= len(gs)\nwhere\n    let gs = [Graph { A -> [B], B }]\ndefine\n    x as Real"),
        ("range-call-as-constant", "min x\ns.t.\n    x >= len(r)\nwhere\n    let r = range(0, 3, false)\ndefine\n    x as Real"),
        ("string-literal-compound-index", "min x_a + x_5\ns.t.\n    x_{\"a\"} >= 1\n    x_5 >= 2\nwhere\n    let a = 5\ndefine\n    x_{\"a\"} as NonNegativeReal\n    x_5 as NonNegativeReal"),
        ("fractional-compound-index", "min x_{1.5}\ns.t.\n    x_{1.5} >= 1\ndefine\n    x_{1.5} as NonNegativeReal"),
    ];
    for (cls, src) in probes.iter() { check_program(src, &mut rep, &format!("probe:{cls}")); }
    // (b) whole programs from the repository
    if let Ok(f) = std::fs::File::open(corpus_path) {
        for line in std::io::BufReader::new(f).lines() {
            let s: String = serde_json::from_str(&line.unwrap()).unwrap();
            check_program(&s, &mut rep, "corpus");
        }
    }
    rep.add("cases", fixed.len() as u64);
    rep.write(&format!("{outdir}/report.json"));
}
