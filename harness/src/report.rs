//! report.json written by every harness sub-command; the Python driver merges it into evidence.
use serde_json::{json, Map, Value};
use std::collections::BTreeMap;

thread_local! { static PROBE_CLASS: std::cell::RefCell<Option<String>> = std::cell::RefCell::new(None); }
/// while set, every failure reported carries this class: used for the fixed probes of recorded findings, so that
/// KNOWN_FINDINGS.json matches a finding only on its own witness
pub fn probe_active() -> bool { PROBE_CLASS.with(|p| p.borrow().is_some()) }
pub fn set_probe_class(c: Option<&str>) { PROBE_CLASS.with(|p| *p.borrow_mut() = c.map(|x| x.to_string())); }

#[derive(Default)]
pub struct Report {
    pub counters: BTreeMap<String, u64>,
    pub samples: Vec<Value>,
    pub oracle_failures: Vec<Value>,
    pub notes: Vec<String>,
    pub distinct: std::collections::HashSet<u64>,
}
impl Report {
    pub fn count(&mut self, k: &str) { *self.counters.entry(k.to_string()).or_insert(0) += 1; }
    pub fn add(&mut self, k: &str, n: u64) { *self.counters.entry(k.to_string()).or_insert(0) += n; }
    pub fn sample(&mut self, v: Value, max: usize) { if self.samples.len() < max { self.samples.push(v); } }
    pub fn fail(&mut self, v: Value) {
        let mut v = v;
        PROBE_CLASS.with(|p| if let Some(c) = p.borrow().as_ref() { v["class"] = Value::String(c.clone()); });
        // keep at most 10 witnesses per (property, kind, class, stream) so that one frequent failure does not hide the others
        let key = format!("failures.{}.{}.{}.{}", v.get("prop").and_then(|x| x.as_str()).unwrap_or("?"), v.get("kind").and_then(|x| x.as_str()).unwrap_or("?"), v.get("class").and_then(|x| x.as_str()).unwrap_or("-"), v.get("stream").and_then(|x| x.as_str()).unwrap_or("-"));
        let seen = *self.counters.get(&key).unwrap_or(&0);
        if seen < 10 && self.oracle_failures.len() < 600 { self.oracle_failures.push(v); }
        self.count(&key);
        self.count("oracle_failures_total");
    }
    pub fn distinct_hash(&mut self, s: &str) {
        use std::hash::{Hash, Hasher};
        let mut h = std::collections::hash_map::DefaultHasher::new();
        s.hash(&mut h);
        self.distinct.insert(h.finish());
    }
    /// records the string and says whether it was new
    pub fn distinct_hash_new(&mut self, s: &str) -> bool {
        use std::hash::{Hash, Hasher};
        let mut h = std::collections::hash_map::DefaultHasher::new();
        s.hash(&mut h);
        self.distinct.insert(h.finish())
    }
    pub fn write(&self, path: &str) {
        let mut m = Map::new();
        m.insert("counters".into(), json!(self.counters));
        m.insert("samples".into(), json!(self.samples));
        m.insert("oracle_failures".into(), json!(self.oracle_failures));
        m.insert("notes".into(), json!(self.notes));
        m.insert("distinct".into(), json!(self.distinct.len()));
        std::fs::write(path, serde_json::to_string_pretty(&Value::Object(m)).unwrap()).unwrap();
    }
}
