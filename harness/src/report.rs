//! report.json written by every harness sub-command; the Python driver merges it into evidence.
use serde_json::{json, Map, Value};
use std::collections::BTreeMap;

#[derive(Default)]
pub struct Report {
    pub counters: BTreeMap<String, u64>,
    pub samples: Vec<Value>,
    pub oracle_failures: Vec<Value>,
    pub notes: Vec<String>,
    pub distinct: std::collections::HashSet<u64>,
}
impl Report {
    pub fn count(&mut self, k: &str) { *self.counters.entry(k.to_string()).or_insert(0) += 1; }
    pub fn add(&mut self, k: &str, n: u64) { *self.counters.entry(k.to_string()).or_insert(0) += n; }
    pub fn sample(&mut self, v: Value, max: usize) { if self.samples.len() < max { self.samples.push(v); } }
    pub fn fail(&mut self, v: Value) { if self.oracle_failures.len() < 200 { self.oracle_failures.push(v); } self.count("oracle_failures_total"); }
    pub fn distinct_hash(&mut self, s: &str) {
        use std::hash::{Hash, Hasher};
        let mut h = std::collections::hash_map::DefaultHasher::new();
        s.hash(&mut h);
        self.distinct.insert(h.finish());
    }
    pub fn write(&self, path: &str) {
        let mut m = Map::new();
        m.insert("counters".into(), json!(self.counters));
        m.insert("samples".into(), json!(self.samples));
        m.insert("oracle_failures".into(), json!(self.oracle_failures));
        m.insert("notes".into(), json!(self.notes));
        m.insert("distinct".into(), json!(self.distinct.len()));
        std::fs::write(path, serde_json::to_string_pretty(&Value::Object(m)).unwrap()).unwrap();
    }
}
