//! Structured generators for expression trees.
use crate::rng::Rng;
use rooc::{BinOp, UnOp, model_transformer::Exp};

pub const CONSTS: &[f64] = &[0.0, 1.0, -0.0, 2.0, 0.5, -1.0, 3.0, -2.0, 0.25, 4.0, -0.5, 1.5];
pub const VARS: &[&str] = &["x", "y", "z", "b", "c"];
pub const ARITH: &[BinOp] = &[BinOp::Add, BinOp::Sub, BinOp::Mul, BinOp::Div];
pub const LOGIC: &[BinOp] = &[BinOp::And, BinOp::Or, BinOp::Xor, BinOp::Implies, BinOp::Iff];

pub fn b(e: Exp) -> Box<Exp> { Box::new(e) }

pub struct ExpGen {
    pub nvars: usize,
    pub logic_weight: u64, // out of 100: how often an inner node is a logic construct
    pub allow_empty_nary: bool,
}
impl Default for ExpGen { fn default() -> Self { ExpGen { nvars: 3, logic_weight: 35, allow_empty_nary: true } } }

impl ExpGen {
    pub fn leaf(&self, r: &mut Rng) -> Exp {
        if r.chance(1, 2) { Exp::Variable(VARS[r.below(self.nvars)].to_string()) } else { Exp::Number(*r.pick(CONSTS)) }
    }
    pub fn list(&self, r: &mut Rng, depth: usize) -> Vec<Exp> {
        let n = if self.allow_empty_nary && r.chance(1, 12) { 0 } else { 1 + r.below(3) };
        (0..n).map(|_| self.exp(r, depth)).collect()
    }
    pub fn exp(&self, r: &mut Rng, depth: usize) -> Exp {
        if depth == 0 || r.chance(1, 5) { return self.leaf(r); }
        let d = depth - 1;
        if r.chance(self.logic_weight, 100) {
            match r.below(8) {
                0 => Exp::And(self.list(r, d)),
                1 => Exp::Or(self.list(r, d)),
                2 => Exp::Not(b(self.exp(r, d))),
                3 => Exp::Xor(b(self.exp(r, d)), b(self.exp(r, d))),
                4 => Exp::Implies(b(self.exp(r, d)), b(self.exp(r, d))),
                5 => Exp::Iff(b(self.exp(r, d)), b(self.exp(r, d))),
                6 => Exp::BinOp(*r.pick(LOGIC), b(self.exp(r, d)), b(self.exp(r, d))),
                _ => Exp::UnOp(UnOp::Not, b(self.exp(r, d))),
            }
        } else {
            match r.below(10) {
                0..=4 => Exp::BinOp(*r.pick(ARITH), b(self.exp(r, d)), b(self.exp(r, d))),
                5 => Exp::UnOp(UnOp::Neg, b(self.exp(r, d))),
                6 => Exp::Abs(b(self.exp(r, d))),
                7 => Exp::Min(self.list(r, d)),
                8 => Exp::Max(self.list(r, d)),
                _ => Exp::BinOp(BinOp::Mul, b(Exp::Number(*r.pick(CONSTS))), b(self.exp(r, d))),
            }
        }
    }
}

/// Exhaustive enumeration of all trees with exactly `ops` internal nodes over the given leaves.
/// n-ary nodes get 1 or 2 operands (and 0 operands when ops == 1).
pub fn enumerate(ops: usize, leaves: &[Exp], memo: &mut Vec<Vec<Exp>>) -> Vec<Exp> {
    if memo.len() > ops { return memo[ops].clone(); }
    for k in memo.len()..ops { enumerate(k, leaves, memo); }
    assert_eq!(memo.len(), ops);
    let out = if ops == 0 { leaves.to_vec() } else {
        let mut out = Vec::new();
        // unary
        let sub = enumerate(ops - 1, leaves, memo);
        for e in &sub {
            out.push(Exp::Abs(b(e.clone())));
            out.push(Exp::Not(b(e.clone())));
            out.push(Exp::UnOp(UnOp::Neg, b(e.clone())));
            out.push(Exp::UnOp(UnOp::Not, b(e.clone())));
            out.push(Exp::And(vec![e.clone()]));
            out.push(Exp::Or(vec![e.clone()]));
            out.push(Exp::Min(vec![e.clone()]));
            out.push(Exp::Max(vec![e.clone()]));
        }
        if ops == 1 { out.push(Exp::And(vec![])); out.push(Exp::Or(vec![])); out.push(Exp::Min(vec![])); out.push(Exp::Max(vec![])); }
        // binary
        for k in 0..ops {
            let ls = enumerate(k, leaves, memo);
            let rs = enumerate(ops - 1 - k, leaves, memo);
            for l in &ls { for r in &rs {
                for op in ARITH.iter().chain(LOGIC.iter()) { out.push(Exp::BinOp(*op, b(l.clone()), b(r.clone()))); }
                out.push(Exp::Xor(b(l.clone()), b(r.clone())));
                out.push(Exp::Implies(b(l.clone()), b(r.clone())));
                out.push(Exp::Iff(b(l.clone()), b(r.clone())));
                out.push(Exp::And(vec![l.clone(), r.clone()]));
                out.push(Exp::Or(vec![l.clone(), r.clone()]));
                out.push(Exp::Min(vec![l.clone(), r.clone()]));
                out.push(Exp::Max(vec![l.clone(), r.clone()]));
            } }
        }
        out
    };
    memo.push(out.clone());
    out
}
