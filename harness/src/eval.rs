//! The language semantics as the repository defines it (builder/expr.rs eval_expr and the test
//! suite's eval_exp), strict, None on division by zero or an empty numeric min/max.
//! Used only by the failing-input search (untrusted helper).
use indexmap::IndexMap;
use rooc::{BinOp, UnOp};
use rooc::model_transformer::Exp;

thread_local! { static NOISE: std::cell::Cell<bool> = const { std::cell::Cell::new(false) }; }
/// true (and cleared) when, since the last call, a truth test or a zero-divisor test was applied to a value that is not zero but
/// smaller than 1e-9 in magnitude: rounding noise of f64 arithmetic (exact arithmetic would give 0 or something else entirely),
/// so the 0/1 outcome of that test is not meaningful and a comparison of two spellings of the expression at this point is skipped
pub fn take_noise() -> bool { NOISE.with(|c| c.replace(false)) }
fn noisy(x: f64) { if x != 0.0 && x.abs() < 1e-9 { NOISE.with(|c| c.set(true)); } }
fn truthy(x: f64) -> bool { noisy(x); x != 0.0 }
fn bn(b: bool) -> f64 { if b { 1.0 } else { 0.0 } }

pub fn eval(e: &Exp, env: &IndexMap<String, f64>) -> Option<f64> {
    Some(match e {
        Exp::Number(v) => *v,
        Exp::Variable(s) => *env.get(s)?,
        Exp::Abs(x) => eval(x, env)?.abs(),
        Exp::Min(l) => {
            if l.is_empty() { return None; }
            let mut m = f64::INFINITY;
            for x in l { m = m.min(eval(x, env)?); }
            m
        }
        Exp::Max(l) => {
            if l.is_empty() { return None; }
            let mut m = f64::NEG_INFINITY;
            for x in l { m = m.max(eval(x, env)?); }
            m
        }
        Exp::And(l) => { let mut r = true; for x in l { r &= truthy(eval(x, env)?); } bn(r) }
        Exp::Or(l) => { let mut r = false; for x in l { r |= truthy(eval(x, env)?); } bn(r) }
        Exp::Not(x) => bn(!truthy(eval(x, env)?)),
        Exp::Xor(a, b) => { let (a, b) = (eval(a, env)?, eval(b, env)?); bn(truthy(a) != truthy(b)) }
        Exp::Implies(a, b) => { let (a, b) = (eval(a, env)?, eval(b, env)?); bn(!truthy(a) || truthy(b)) }
        Exp::Iff(a, b) => { let (a, b) = (eval(a, env)?, eval(b, env)?); bn(truthy(a) == truthy(b)) }
        Exp::BinOp(op, a, b) => {
            let (l, r) = (eval(a, env)?, eval(b, env)?);
            match op {
                BinOp::Add => l + r, BinOp::Sub => l - r, BinOp::Mul => l * r,
                BinOp::Div => { noisy(r); if r == 0.0 { return None; } l / r }
                BinOp::And => bn(truthy(l) && truthy(r)), BinOp::Or => bn(truthy(l) || truthy(r)),
                BinOp::Xor => bn(truthy(l) != truthy(r)), BinOp::Implies => bn(!truthy(l) || truthy(r)),
                BinOp::Iff => bn(truthy(l) == truthy(r)),
            }
        }
        Exp::UnOp(op, x) => { let v = eval(x, env)?; match op { UnOp::Neg => -v, UnOp::Not => bn(!truthy(v)) } }
    })
}

/// structural equality of expression trees (numbers by bit-insensitive ==, NaN == NaN)
pub fn exp_eq(a: &Exp, b: &Exp) -> bool {
    fn l(a: &[Exp], b: &[Exp]) -> bool { a.len() == b.len() && a.iter().zip(b).all(|(x, y)| exp_eq(x, y)) }
    match (a, b) {
        (Exp::Number(x), Exp::Number(y)) => x == y || (x.is_nan() && y.is_nan()),
        (Exp::Variable(x), Exp::Variable(y)) => x == y,
        (Exp::Abs(x), Exp::Abs(y)) | (Exp::Not(x), Exp::Not(y)) => exp_eq(x, y),
        (Exp::Min(x), Exp::Min(y)) | (Exp::Max(x), Exp::Max(y)) | (Exp::And(x), Exp::And(y)) | (Exp::Or(x), Exp::Or(y)) => l(x, y),
        (Exp::Xor(a1, b1), Exp::Xor(a2, b2)) | (Exp::Implies(a1, b1), Exp::Implies(a2, b2)) | (Exp::Iff(a1, b1), Exp::Iff(a2, b2)) => exp_eq(a1, a2) && exp_eq(b1, b2),
        (Exp::BinOp(o1, a1, b1), Exp::BinOp(o2, a2, b2)) => o1 == o2 && exp_eq(a1, a2) && exp_eq(b1, b2),
        (Exp::UnOp(o1, x), Exp::UnOp(o2, y)) => o1 == o2 && exp_eq(x, y),
        _ => false,
    }
}

pub fn vars_of(e: &Exp, out: &mut Vec<String>) {
    match e {
        Exp::Number(_) => {}
        Exp::Variable(s) => if !out.contains(s) { out.push(s.clone()) },
        Exp::Abs(x) | Exp::Not(x) | Exp::UnOp(_, x) => vars_of(x, out),
        Exp::Min(l) | Exp::Max(l) | Exp::And(l) | Exp::Or(l) => for x in l { vars_of(x, out) },
        Exp::Xor(a, b) | Exp::Implies(a, b) | Exp::Iff(a, b) | Exp::BinOp(_, a, b) => { vars_of(a, out); vars_of(b, out) }
    }
}

pub fn size(e: &Exp) -> usize {
    match e {
        Exp::Number(_) | Exp::Variable(_) => 1,
        Exp::Abs(x) | Exp::Not(x) | Exp::UnOp(_, x) => 1 + size(x),
        Exp::Min(l) | Exp::Max(l) | Exp::And(l) | Exp::Or(l) => 1 + l.iter().map(size).sum::<usize>(),
        Exp::Xor(a, b) | Exp::Implies(a, b) | Exp::Iff(a, b) | Exp::BinOp(_, a, b) => 1 + size(a) + size(b),
    }
}

/// all assignments of `vars` over `grid`
pub fn assignments(vars: &[String], grid: &[f64]) -> Vec<IndexMap<String, f64>> {
    let mut out = vec![IndexMap::new()];
    for v in vars {
        let mut next = Vec::new();
        for a in &out { for g in grid { let mut b = a.clone(); b.insert(v.clone(), *g); next.push(b); } }
        out = next;
    }
    out
}

/// typed-at-env: every non-literal operand of and/or (n-ary or binary) evaluates to 0 or 1.
/// (The hypothesis of C10_simplify_sound; its failure is the signature of finding F17.)
pub fn typed_ok(e: &Exp, env: &IndexMap<String, f64>) -> bool {
    let opnd = |x: &Exp| -> bool {
        if matches!(x, Exp::Number(_)) { return true; }
        match eval(x, env) { Some(v) => v == 0.0 || v == 1.0, None => true }
    };
    match e {
        Exp::Number(_) | Exp::Variable(_) => true,
        Exp::Abs(x) | Exp::Not(x) | Exp::UnOp(_, x) => typed_ok(x, env),
        Exp::Min(l) | Exp::Max(l) => l.iter().all(|x| typed_ok(x, env)),
        Exp::And(l) | Exp::Or(l) => l.iter().all(|x| opnd(x) && typed_ok(x, env)),
        Exp::Xor(a, b) | Exp::Implies(a, b) | Exp::Iff(a, b) => typed_ok(a, env) && typed_ok(b, env),
        Exp::BinOp(op, a, b) => {
            let ok = match op { BinOp::And | BinOp::Or => opnd(a) && opnd(b), _ => true };
            ok && typed_ok(a, env) && typed_ok(b, env)
        }
    }
}

/// signature of finding F3: a product one of whose operands simplifies to the literal 0 while the
/// other is undefined at env (division by zero / empty aggregate) occurs somewhere in e.
pub fn has_zero_times_undefined(e: &Exp, env: &IndexMap<String, f64>) -> bool {
    let here = match e {
        Exp::BinOp(BinOp::Mul, a, b) => {
            let z = |x: &Exp| matches!(x.simplify(), Exp::Number(v) if v == 0.0);
            (z(a) && hits_div_zero(b, env)) || (z(b) && hits_div_zero(a, env))
        }
        _ => false,
    };
    if here { return true; }
    match e {
        Exp::Number(_) | Exp::Variable(_) => false,
        Exp::Abs(x) | Exp::Not(x) | Exp::UnOp(_, x) => has_zero_times_undefined(x, env),
        Exp::Min(l) | Exp::Max(l) | Exp::And(l) | Exp::Or(l) => l.iter().any(|x| has_zero_times_undefined(x, env)),
        Exp::Xor(a, b) | Exp::Implies(a, b) | Exp::Iff(a, b) | Exp::BinOp(_, a, b) => has_zero_times_undefined(a, env) || has_zero_times_undefined(b, env),
    }
}

/// Does evaluating e at env hit a division by zero somewhere (strict evaluation)?
pub fn hits_div_zero(e: &Exp, env: &IndexMap<String, f64>) -> bool {
    match e {
        Exp::Number(_) | Exp::Variable(_) => false,
        Exp::Abs(x) | Exp::Not(x) | Exp::UnOp(_, x) => hits_div_zero(x, env),
        Exp::Min(l) | Exp::Max(l) | Exp::And(l) | Exp::Or(l) => l.iter().any(|x| hits_div_zero(x, env)),
        Exp::Xor(a, b) | Exp::Implies(a, b) | Exp::Iff(a, b) => hits_div_zero(a, env) || hits_div_zero(b, env),
        Exp::BinOp(op, a, b) => {
            if hits_div_zero(a, env) || hits_div_zero(b, env) { return true; }
            matches!(op, BinOp::Div) && eval(b, env) == Some(0.0)
        }
    }
}

/// signature of finding F3b: an and/or node with an absorbing literal operand (0 for and, 1.. for or)
/// next to an operand that divides by zero at env.
pub fn has_absorbing_logic_next_to_undefined(e: &Exp, env: &IndexMap<String, f64>) -> bool {
    let check = |is_and: bool, ops: &[&Exp]| -> bool {
        let absorbing = ops.iter().any(|x| matches!(x.simplify(), Exp::Number(v) if (v != 0.0) != is_and));
        absorbing && ops.iter().any(|x| hits_div_zero(x, env))
    };
    let here = match e {
        Exp::And(l) => check(true, &l.iter().collect::<Vec<_>>()),
        Exp::Or(l) => check(false, &l.iter().collect::<Vec<_>>()),
        Exp::BinOp(BinOp::And, a, b) => check(true, &[a, b]),
        Exp::BinOp(BinOp::Or, a, b) => check(false, &[a, b]),
        _ => false,
    };
    if here { return true; }
    match e {
        Exp::Number(_) | Exp::Variable(_) => false,
        Exp::Abs(x) | Exp::Not(x) | Exp::UnOp(_, x) => has_absorbing_logic_next_to_undefined(x, env),
        Exp::Min(l) | Exp::Max(l) | Exp::And(l) | Exp::Or(l) => l.iter().any(|x| has_absorbing_logic_next_to_undefined(x, env)),
        Exp::Xor(a, b) | Exp::Implies(a, b) | Exp::Iff(a, b) | Exp::BinOp(_, a, b) => has_absorbing_logic_next_to_undefined(a, env) || has_absorbing_logic_next_to_undefined(b, env),
    }
}
