use indexmap::IndexMap;
use rooc::RoocParser;
fn main() {
    let src = "min x / 0.5\ns.t.\n    c__2: x - x * 1 - min{ x / 0.5 - x * 3 - 4, 1 * x } = 3\n    c__2: x / 1 - -x <= 6\n    c2: x * 2 + x / 2 - 0.5 <= 1.5\ndefine\n    x as NonNegativeReal(0, 5)";
    let m = RoocParser::new(src.to_string()).parse_and_transform(vec![], &IndexMap::new()).unwrap();
    for k in 1..26 {
        let an = rooc::bounds_verif_hooks::analyze(m.domain(), m.constraints(), Some(k), &[]);
        println!("{k}: {:?} limit={} infeasible={}", an.variable_bounds, an.reached_iteration_limit, an.detected_infeasible);
    }
}
