use rooc::RoocParser;
fn main() {
    let src = std::fs::read_to_string(std::env::args().nth(1).unwrap()).unwrap();
    let p = RoocParser::new(src.clone());
    match p.format() { Ok(f) => { println!("{}", f); let p2 = RoocParser::new(f.clone()); println!("--- second: {:?}", p2.format().map(|g| g == f).map_err(|e| format!("{:?}", e).chars().take(300).collect::<String>())); } Err(e) => println!("ERR {:?}", e) }
}
