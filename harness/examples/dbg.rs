use rooc::*;
fn main() {
    // case 7: max x + 0.5y s.t. x + 3y >= 3 ; x + y = 4 ; x>=0, y>=1
    let n = 4; let m = 3;
    let rows = vec![vec![1.0,3.0,-1.0,0.0], vec![1.0,1.0,0.0,0.0], vec![0.0,1.0,0.0,-1.0]];
    let b = vec![3.0,4.0,1.0];
    let mut a = rows.clone();
    let mut c = vec![0.0; n+m];
    let mut basis = vec![0; m];
    for i in 0..m { c[n+i] = 1.0; basis[i] = n+i; }
    let mut value = 0.0;
    let mut vars: Vec<String> = (0..n).map(|i| format!("v{i}")).collect();
    for (i, row) in a.iter_mut().enumerate() { row.resize(n+m, 0.0); row[i+n] = 1.0; vars.push(format!("$a_{i}")); for (j, co) in row.iter().enumerate() { c[j] -= co; } value -= b[i]; }
    let mut t = Tableau::new(c, a, b, basis, value, 0.0, vars, true);
    let art: Vec<usize> = (n..n+m).collect();
    println!("c={:?} value={}", t.c_vec(), t.current_value());
    for _ in 0..10 {
        match t.step(&art) { Ok(StepAction::Pivot{entering, leaving, ratio}) => println!("pivot e={entering} l={leaving} r={ratio} basis={:?} c={:?} b={:?}", t.in_basis(), t.c_vec(), t.b_vec()), Ok(StepAction::Finished) => { println!("finished"); break; }, Err(e) => { println!("err {e:?}"); break; } }
    }
}
