use rooc::*;
use indexmap::IndexMap;
fn main() {
    for name in ["trueish", "minx", "asb", "forz", "inx", "andy", "orb", "notx", "xorz", "iffy", "impliesq", "maxi", "letter", "wherever", "defined", "solver", "falsey", "a"] {
        let src = format!("min {name} + 1\ns.t.\n    {name} >= 0\ndefine\n    {name} as Boolean");
        let r = RoocParser::new(src).parse_and_transform(vec![], &IndexMap::new());
        println!("{name}: {}", match r { Ok(m) => format!("ok {}", m.objective().rhs), Err(e) => format!("ERR {}", e.lines().nth(1).unwrap_or("").trim().chars().take(60).collect::<String>()) });
    }
}
