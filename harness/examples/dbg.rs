use indexmap::IndexMap;
use rooc::{RoocParser, Linearizer};
fn main() {
    let src = std::env::args().nth(1).unwrap().replace("\\n", "\n");
    let p = RoocParser::new(src.clone());
    match p.parse_and_transform(vec![], &IndexMap::new()) {
        Ok(m) => { println!("MODEL:\n{}\n{:?}", m, m.objective().rhs); match Linearizer::linearize(m) { Ok(l) => println!("LINEAR:\n{}", l), Err(e) => println!("LINERR {}", e) } }
        Err(e) => println!("ERR {}", e),
    }
}
