use indexmap::IndexMap;
use rooc::RoocParser;
fn main() {
    let src = std::env::args().nth(1).unwrap().replace("\\n", "\n");
    let p = RoocParser::new(src.clone());
    println!("parse: {:?}", p.parse().map(|_| ()).map_err(|e| e.to_string_from_source(&src)));
    println!("typecheck: {:?}", p.type_check(&vec![], &IndexMap::new()));
    println!("transform: {:?}", p.parse_and_transform(vec![], &IndexMap::new()).map(|m| m.to_string()));
}
