use indexmap::IndexMap;
use rooc::RoocParser;
fn main() {
    let src = std::fs::read_to_string(std::env::args().nth(1).unwrap()).unwrap();
    let p = RoocParser::new(src.clone());
    println!("parse: {:?}", p.parse().map(|_| ()).map_err(|e| e.to_string_from_source(&src)));
    println!("typecheck: {:?}", p.type_check(&vec![], &IndexMap::new()));
    println!("transform: {:?}", p.parse_and_transform(vec![], &IndexMap::new()).map(|m| m.to_string()));
}
